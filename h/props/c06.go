package props

import (
	"context"
	"fmt"
	"sort"
	"strings"
	"time"

	proto "github.com/kubewharf/kubebrain-client/api/v2rpc"

	"github.com/kubewharf/kubebrain/pkg/backend"
	"github.com/kubewharf/kubebrain/zz_verif/h/hx"
	"github.com/kubewharf/kubebrain/zz_verif/h/mc"
	"github.com/kubewharf/kubebrain/zz_verif/rt/vrt"
)

// C06 — list-then-watch reconstructs the store.

type c06Cfg struct {
	engine    string
	writers   [][]wop
	compactor bool
	uncertain bool // the first commit of a writer is applied but answered 'outcome unknown'; the retry loop repairs it
}

func (c c06Cfg) name() string {
	var ws []string
	for _, w := range c.writers {
		var s []string
		for _, o := range w {
			s = append(s, wopNames[o])
		}
		ws = append(ws, strings.Join(s, ","))
	}
	n := fmt.Sprintf("C06/%s/%s/compactor=%v", c.engine, strings.Join(ws, "|"), c.compactor)
	if c.uncertain {
		n += "/first-commit-outcome-unknown"
	}
	return n
}

func applyEvents(snap map[string]mkv, evs []evRec, upTo uint64) map[string]mkv {
	out := map[string]mkv{}
	for k, v := range snap {
		out[k] = v
	}
	for _, e := range evs {
		if e.rev > upTo {
			break
		}
		if e.typ == proto.Event_DELETE {
			delete(out, e.key)
		} else {
			out[e.key] = mkv{e.key, e.val, e.kvRev}
		}
	}
	return out
}

func snapString(m map[string]mkv) string {
	var ks []string
	for k := range m {
		ks = append(ks, k)
	}
	sort.Strings(ks)
	var l []mkv
	for _, k := range ks {
		l = append(l, m[k])
	}
	return mkvString(l)
}

func c06Scenario(c c06Cfg) *mc.Scenario {
	return &mc.Scenario{Name: c.name(), TolerateNondet: c.engine != hx.Mem, Body: func(x *mc.X) {
		if c.uncertain {
			backend.VerifSetIntervals(5*time.Second, time.Second)
		}
		w := newWorld(c.engine, 64)
		w.kv.Yield = c.engine != hx.Mem
		defer w.close()
		// initial content: /r/w/p live (2 versions), /r/w/q created and deleted
		for _, op := range []*clientOp{
			{Key: "/r/w/p", Kind: rCreate, Val: "p0"}, {Key: "/r/w/q", Kind: rCreate, Val: "q0"},
			{Key: "/r/w/p", Kind: rUpdOK, Exp: base + 1, Val: "p1"}, {Key: "/r/w/q", Kind: rDelOK, Exp: base + 2},
		} {
			w.mustOK(op)
		}
		w.ops = nil
		if c.uncertain {
			hit := false
			w.kv.CommitFault = func(n int, b *hx.BatchRec) hx.FaultKind {
				if !hit && b.Thread != "0.2" { // (0.2 is the retry loop)
					hit = true
					return hx.UncertainApplied
				}
				return hx.NoFault
			}
		}
		ctx, cancel := context.WithCancel(bg)
		defer cancel()
		var first *proto.RangeResponse
		var listErr, watchErr error
		var recv []evRec
		closed := false
		var lazyCh <-chan []*proto.Event
		vrt.BeginExplore()
		reader := vrt.Go(func() {
			first, listErr = w.b.List(bg, &proto.RangeRequest{Key: []byte(c05Prefix), End: []byte("/r/w0")})
			if listErr != nil {
				return
			}
			var ch <-chan []*proto.Event
			ch, watchErr = w.b.Watch(ctx, c05Prefix, first.Header.GetRevision()+1)
			if watchErr != nil {
				return
			}
			if c.uncertain {
				// (the events are collected after the window: the consumer's own steps add nothing to this scenario)
				lazyCh = ch
				return
			}
			for {
				vrt.Recv(ch)
				evs, ok := <-ch
				vrt.Recvd()
				if !ok {
					closed = true
					return
				}
				for _, e := range evs {
					recv = append(recv, evRec{e.Type, e.Revision, string(e.Kv.GetKey()), string(e.Kv.GetValue()), e.Kv.GetRevision()})
				}
			}
		})
		_ = reader
		var ths []*vrt.Thread
		for ti, ops := range c.writers {
			ti, ops := ti, ops
			ths = append(ths, vrt.Go(func() {
				xrev := uint64(0)
				for oi, o := range ops {
					op := &clientOp{Val: fmt.Sprintf("w%d.%d", ti, oi)}
					switch o {
					case wCreateX:
						op.Key, op.Kind = "/r/w/x", rCreate
					case wUpdateX:
						op.Key, op.Kind, op.Exp = "/r/w/x", rUpdOK, xrev
						if xrev == 0 {
							op.Exp = base
						}
					case wDeleteX:
						op.Key, op.Kind = "/r/w/x", rDel0
					case wCreateY:
						op.Key, op.Kind = "/r/w/y", rCreate
					case wCreateOut:
						op.Key, op.Kind = "/r/o/z", rCreate
					case wDupP:
						op.Key, op.Kind = "/r/w/p", rCreate
					case wUpdateP:
						op.Key, op.Kind, op.Exp = "/r/w/p", rUpdOK, base+3
					case wDeleteP:
						op.Key, op.Kind = "/r/w/p", rDel0
					case wUpdStaleP:
						op.Key, op.Kind, op.Exp = "/r/w/p", rUpdStale, base-3
					}
					w.do(op)
					if op.OK && op.Key == "/r/w/x" && !op.Kind.isDelete() {
						xrev = op.Hdr
					}
				}
			}))
		}
		floor := uint64(0)
		if c.compactor {
			ths = append(ths, vrt.Go(func() {
				r, err := w.b.Compact(bg, 0)
				if err == nil {
					floor = r.Header.GetRevision()
				}
			}))
		}
		for _, t := range ths {
			vrt.Join(t)
		}
		vrt.Quiesce()
		vrt.EndExplore()
		if c.uncertain {
			// the retry interval passes (several times): the unknown-outcome write is repaired and its event published
			for i := 0; i < 4; i++ {
				vrt.Advance(6 * time.Second)
				vrt.Quiesce()
			}
			if n := backend.VerifRetryQueueLen(w.b); n != 0 {
				x.Fail("C06|repair-never-finishes|"+c.engine, "%d entries are left in the retry queue after four retry intervals", n)
			}
			for lazyCh != nil {
				n, _, cl := vrt.ChanLen(lazyCh)
				if n == 0 {
					closed = cl
					break
				}
				evs, ok := <-lazyCh
				if !ok {
					closed = true
					break
				}
				for _, e := range evs {
					recv = append(recv, evRec{e.Type, e.Revision, string(e.Kv.GetKey()), string(e.Kv.GetValue()), e.Kv.GetRevision()})
				}
				vrt.Quiesce()
			}
		}
		if listErr != nil || watchErr != nil {
			x.Obs = fmt.Sprintf("no-verdict list-err=%v watch-refused=%v", listErr != nil, watchErr != nil)
			w.clean = true
			return
		}
		snap := map[string]mkv{}
		for _, kv := range first.Kvs {
			snap[string(kv.Key)] = mkv{string(kv.Key), string(kv.Value), kv.Revision}
		}
		R := first.Header.GetRevision()
		committed := w.b.GetCurrentRevision()
		targets := []uint64{}
		for _, e := range recv {
			targets = append(targets, e.rev)
		}
		if !closed {
			targets = append(targets, committed) // the stream is drained: events up to the committed revision have arrived
		}
		lastEv := R
		if len(recv) > 0 {
			lastEv = recv[len(recv)-1].rev
		}
		nchk := 0
		for _, rp := range targets {
			if rp < R || rp < floor {
				continue
			}
			if closed && rp > lastEv {
				continue
			}
			l, err := w.b.List(bg, &proto.RangeRequest{Key: []byte(c05Prefix), End: []byte("/r/w0"), Revision: rp})
			if err != nil {
				continue // refused (compacted meanwhile): no verdict for this revision
			}
			nchk++
			want := applyEvents(snap, recv, rp)
			got := map[string]mkv{}
			for _, kv := range l.Kvs {
				got[string(kv.Key)] = mkv{string(kv.Key), string(kv.Value), kv.Revision}
			}
			if snapString(got) != snapString(want) {
				x.Fail("C06|reconstruction-differs|"+c.engine, "List served at revision %d returned %s; applying the watch events %s (watch from %d) up to revision %d yields %s, but List at %d returns %s", int64(R)-base, kvsString(first.Kvs), evsString(recv), int64(R)+1-base, int64(rp)-base, snapString(want), int64(rp)-base, snapString(got))
			}
		}
		x.Obs = fmt.Sprintf("R=%d events=%d closed=%v checked=%d", int64(R)-base, len(recv), closed, nchk)
		w.clean = true
	}}
}

func c06Configs(tier string) []c06Cfg {
	out := []c06Cfg{
		{hx.Mem, [][]wop{{wCreateX, wUpdateX, wDeleteX}}, false, false},
		{hx.Mem, [][]wop{{wUpdStaleP, wUpdateP, wDupP, wCreateOut}}, false, false},
		{hx.Mem, [][]wop{{wDeleteP, wCreateX}}, true, false},
		{hx.Mem, [][]wop{{wCreateX, wUpdateX}}, true, false},
		{hx.Mem, [][]wop{{wCreateX}, {wDeleteP}}, false, false},
		{hx.Mem, [][]wop{{wDeleteP}}, true, true},
	}
	if tier == "thorough" {
		out = append(out,
			c06Cfg{hx.Mem, [][]wop{{wCreateX, wUpdateX}, {wCreateY, wDeleteP}}, false, false},
			c06Cfg{hx.Mem, [][]wop{{wCreateX}, {wDeleteP}}, true, false},
			c06Cfg{hx.Badger, [][]wop{{wCreateX, wDeleteP}}, true, false},
			c06Cfg{hx.TiKV, [][]wop{{wCreateX, wDeleteP}}, true, false},
		)
	}
	return out
}

func init() {
	mc.Register(&mc.Property{
		ID:     "C06",
		Level:  "model_checking",
		Rule:   "every schedule (preemption-bounded DFS with happens-before state cache) of a reader that lists at the current revision R and then watches from R+1, against 1-2 writers (successful and failing writes, keys inside and outside the prefix) and optionally a compactor (one scenario with the first commit of the writer applied but answered 'outcome unknown', the retry loop repairing it after the window); for every revision R' of a received event and for the committed revision at quiescence (when the stream is still open), List at R' must equal the first list with the events up to R' applied",
		Assume: []string{"event cache large enough not to evict (eviction is C05's subject)", "refused watches / refused reads give no verdict and are counted in the outcome histogram"},
		Scenarios: func(tier string) []*mc.Scenario {
			var out []*mc.Scenario
			for _, c := range c06Configs(tier) {
				out = append(out, c06Scenario(c))
			}
			return out
		},
		Drive: func(c *mc.Ctx) {
			cfgs := c06Configs(c.Tier)
			mc.DriveSchedules(c, func(i int, sc *mc.Scenario) mc.SchedPlan {
				p := mc.SchedPlan{Class: fmt.Sprintf("%s/writers=%d/compactor=%v", cfgs[i].engine, len(cfgs[i].writers), cfgs[i].compactor), Bounds: []int{0, 1}, Shard: true}
				if c.Tier == "thorough" && cfgs[i].engine == hx.Mem {
					p.Bounds = []int{0, 1, 2}
				}
				if (cfgs[i].compactor || len(cfgs[i].writers) > 1) && c.Tier == "quick" {
					p.Bounds = []int{0}
				}
				if cfgs[i].uncertain {
					// the window between the collector's two steps for an unknown-outcome write takes one
					// preemption: 0.27 M executions for this scenario alone, so only the thorough tier goes there
					p.Class += "/outcome-unknown"
					p.Bounds = []int{0}
					if c.Tier == "thorough" {
						p.Bounds = []int{0, 1}
					}
				}
				return p
			})
		},
	})
}
