// Package props holds one harness per property.
package props

import (
	"bytes"
	"context"
	"fmt"
	"sort"
	"strings"
	"unsafe"

	proto "github.com/kubewharf/kubebrain-client/api/v2rpc"

	"github.com/kubewharf/kubebrain/pkg/backend"
	"github.com/kubewharf/kubebrain/pkg/backend/common"
	"github.com/kubewharf/kubebrain/zz_verif/h/hx"
	"github.com/kubewharf/kubebrain/zz_verif/h/mc"
	"github.com/kubewharf/kubebrain/zz_verif/rt/vatomic"
	"github.com/kubewharf/kubebrain/zz_verif/rt/vrt"
)

const base = 1000 // revisions are initialised with SetCurrentRevision(base)

type reqKind int

const (
	rCreate reqKind = iota
	rUpdOK
	rDelOK
	rUpd0
	rDel0
	rUpdStale
	rDelStale
	rUpdFuture
	rDelFuture
	nReqKinds
)

var reqNames = [...]string{"create", "upd-ok", "del-ok", "upd-0", "del-0", "upd-stale", "del-stale", "upd-future", "del-future"}

func (k reqKind) isDelete() bool {
	return k == rDelOK || k == rDel0 || k == rDelStale || k == rDelFuture
}
func (k reqKind) isCreate() bool { return k == rCreate || k == rUpd0 }

// key state of the sequential specification
type kstate struct {
	kind int // 0 absent, 1 live, 2 deleted
	rev  uint64
	val  string
}

func (s kstate) String() string {
	switch s.kind {
	case 1:
		return fmt.Sprintf("live(%d)", int64(s.rev)-base)
	case 2:
		return fmt.Sprintf("deleted(%d)", int64(s.rev)-base)
	}
	return "absent"
}

type clientOp struct {
	Thread     string
	Key        string
	Kind       reqKind
	Exp        uint64
	Val        string
	Call, Ret  int
	OK, Failed bool
	Err        error
	Hdr        uint64
	Kv         *proto.KeyValue
	Revs       []uint64 // revisions this attempt was stamped with (batches, notifications)
	CommitStep int
	CommitRev  uint64
	done       bool
}

type notifRec struct {
	thread string
	step   int
	rev    uint64
	valid  bool
}

type readRec struct {
	what string
	hdr  uint64
	kvs  []*proto.KeyValue
	err  error
}

// world is one backend instance plus everything the oracles observe about one execution.
type world struct {
	engine  string
	kv      *hx.Deco
	b       backend.Backend
	cleanup func()
	ops     []*clientOp
	notifs  []notifRec
	adds    []notifRec // revisions handed out (AddUint64 on the allocator), by thread
	reads   []readRec
	monitor string // first violation seen by the step monitor
	clean   bool   // the execution ran to its end (the engine may be reused)
	opDone  func(op *clientOp)
}

func newWorld(engine string, cacheSize int) *world { return newWorldCompat(engine, cacheSize, false) }

// newWorldCompat: compat enables the etcd-compatibility switch of the backend (Count is served).
func newWorldCompat(engine string, cacheSize int, compat bool) *world {
	kv, release, err := hx.AcquireEngine(engine)
	if err != nil {
		panic(err)
	}
	w := &world{engine: engine}
	w.cleanup = func() { release(!w.clean) }
	w.kv = hx.NewDeco(kv, engine != hx.Mem)
	vatomic.StoreHook = func(v interface{}) {
		if we, ok := v.(*common.WatchEvent); ok && we != nil {
			w.notifs = append(w.notifs, notifRec{vrt.CurName(), vrt.Steps(), we.Revision, we.Valid})
		}
	}
	vatomic.AddHook = func(_ unsafe.Pointer, v uint64) {
		w.adds = append(w.adds, notifRec{vrt.CurName(), vrt.Steps(), v, true})
	}
	w.b = backend.NewBackend(w.kv, backend.Config{Prefix: "/r", Identity: "n1", WatchCacheSize: cacheSize, EnableEtcdCompatibility: compat}, hx.NopMetrics{})
	w.b.SetCurrentRevision(base)
	vrt.Quiesce()
	return w
}

func (w *world) close() {
	vatomic.StoreHook, vatomic.AddHook, vatomic.StoreU64Hook = nil, nil, nil
	w.cleanup()
}

var bg = context.Background()

// do performs one client request and records everything about it.
func (w *world) do(op *clientOp) {
	op.Thread = vrt.CurName()
	w.ops = append(w.ops, op)
	key, val := []byte(op.Key), []byte(op.Val)
	vrt.Mark() // call / return / commit order is observed by the oracles
	op.Call = vrt.Steps()
	switch {
	case op.Kind == rCreate:
		r, err := w.b.Create(bg, &proto.CreateRequest{Key: key, Value: val})
		op.Err = err
		if err == nil {
			op.OK, op.Failed, op.Hdr = r.Succeeded, !r.Succeeded, r.Header.GetRevision()
		}
	case op.Kind.isDelete():
		r, err := w.b.Delete(bg, &proto.DeleteRequest{Key: key, Revision: op.Exp})
		op.Err = err
		if err == nil {
			op.OK, op.Failed, op.Hdr, op.Kv = r.Succeeded, !r.Succeeded, r.Header.GetRevision(), r.Kv
		}
	default:
		r, err := w.b.Update(bg, &proto.UpdateRequest{Kv: &proto.KeyValue{Key: key, Value: val, Revision: op.Exp}})
		op.Err = err
		if err == nil {
			op.OK, op.Failed, op.Hdr, op.Kv = r.Succeeded, !r.Succeeded, r.Header.GetRevision(), r.Kv
		}
	}
	op.Ret = vrt.Steps()
	vrt.Mark()
	op.done = true
}

// attribute fills Revs / CommitStep / CommitRev of every client operation from the engine trace and
// the notification slots.
func (w *world) attribute() {
	for _, op := range w.ops {
		seen := map[uint64]bool{}
		add := func(r uint64) {
			if r != 0 && !seen[r] {
				seen[r] = true
				op.Revs = append(op.Revs, r)
			}
		}
		for _, b := range w.kv.Batches {
			if b.Thread != op.Thread || b.BeginStep < op.Call || b.BeginStep > op.Ret {
				continue
			}
			for _, o := range b.Ops {
				uk, rev, err := hx.Coder.Decode(o.Key)
				if err != nil || string(uk) != op.Key || rev == 0 || o.Kind != "put" {
					continue
				}
				add(rev)
				if b.Done && b.Err == nil {
					op.CommitStep, op.CommitRev = b.CommitStep, rev
				}
			}
		}
		for _, n := range w.notifs {
			if n.thread == op.Thread && n.step >= op.Call && n.step <= op.Ret {
				add(n.rev)
			}
		}
	}
}

func (w *world) dump() []hx.Rec { return hx.Decode(hx.Dump(w.kv)) }

// ---------------------------------------------------------------------------------------------
// initial key states

type initState struct {
	name       string
	spec       kstate
	cur, stale uint64
	versions   map[uint64]string // version records present (value; tombstone as stored)
}

func (w *world) mustOK(op *clientOp) {
	w.do(op)
	if !op.OK {
		panic(fmt.Sprintf("initial state: %s failed: %v", reqNames[op.Kind], op.Err))
	}
	vrt.Quiesce()
}

// buildInit brings key into one of the four initial states of the property statement.
func (w *world) buildInit(name, key string) initState {
	st := initState{name: name, versions: map[uint64]string{}}
	switch name {
	case "none":
		st.spec, st.cur, st.stale = kstate{}, base, base-1
	case "live":
		w.mustOK(&clientOp{Key: key, Kind: rCreate, Val: "i1"})
		w.mustOK(&clientOp{Key: key, Kind: rUpdOK, Exp: base + 1, Val: "i2"})
		st.spec, st.cur, st.stale = kstate{1, base + 2, "i2"}, base+2, base+1
		st.versions[base+1], st.versions[base+2] = "i1", "i2"
	case "deleted":
		w.mustOK(&clientOp{Key: key, Kind: rCreate, Val: "i1"})
		w.mustOK(&clientOp{Key: key, Kind: rDelOK, Exp: base + 1})
		st.spec, st.cur, st.stale = kstate{2, base + 2, ""}, base+2, base+1
		st.versions[base+1], st.versions[base+2] = "i1", "tombstone"
	case "compacted":
		w.mustOK(&clientOp{Key: key, Kind: rCreate, Val: "i1"})
		w.mustOK(&clientOp{Key: key, Kind: rDelOK, Exp: base + 1})
		if _, err := w.b.Compact(bg, base+2); err != nil {
			panic(err)
		}
		vrt.Quiesce()
		st.spec, st.cur, st.stale = kstate{}, base+2, base+1
	default:
		panic("unknown initial state " + name)
	}
	w.ops = nil
	w.kv.Batches = nil
	w.notifs = nil
	return st
}

func (st initState) expFor(k reqKind) uint64 {
	switch k {
	case rUpdOK, rDelOK:
		return st.cur
	case rUpdStale, rDelStale:
		return st.stale
	case rUpdFuture, rDelFuture:
		return st.cur + 4000
	}
	return 0
}

// ---------------------------------------------------------------------------------------------
// C01 oracle

func kvEq(a *proto.KeyValue, val string, rev uint64) bool {
	return a != nil && string(a.Value) == val && a.Revision == rev
}

// checkChain is the C01 oracle for one key; it also returns the final state of the key.
func (w *world) checkChain(x *mc.X, key string, st initState) kstate {
	var succ []*clientOp
	for _, op := range w.ops {
		if op.Key != key || !op.done {
			continue
		}
		if op.OK {
			if op.CommitRev == 0 {
				x.Fail("C01|success-without-commit|"+w.engine, "%s by %s reported success but no successful engine batch wrote a version of %s", reqNames[op.Kind], op.Thread, key)
				continue
			}
			if op.Hdr != op.CommitRev {
				x.Fail("C01|success-header|"+w.engine, "%s reported revision %d but wrote revision %d", reqNames[op.Kind], op.Hdr, op.CommitRev)
			}
			succ = append(succ, op)
		}
	}
	sort.SliceStable(succ, func(i, j int) bool { return succ[i].CommitStep < succ[j].CommitStep })
	// chain in revision order, each link conditioned on its predecessor
	type tl struct {
		step int
		s    kstate
	}
	timeline := []tl{{-1, st.spec}}
	cur := st.spec
	versions := map[uint64]string{}
	for r, v := range st.versions {
		versions[r] = v
	}
	for _, op := range succ {
		name := reqNames[op.Kind]
		switch {
		case op.Kind.isCreate():
			if cur.kind == 1 {
				x.Fail("C01|create-over-live|"+w.engine, "%s succeeded at revision %d while the key was %v", name, op.CommitRev, cur)
			}
		case op.Exp != 0:
			if cur.kind != 1 || cur.rev != op.Exp {
				x.Fail("C01|lost-update|"+w.engine+"|"+name, "%s expecting revision %d succeeded at revision %d while the key was %v (successes in commit order: %s)", name, op.Exp, op.CommitRev, cur, w.succString(succ))
			}
		default: // unguarded delete
			if cur.kind != 1 {
				x.Fail("C01|delete-of-missing|"+w.engine, "unguarded delete succeeded while the key was %v", cur)
			}
		}
		if cur.kind != 0 && op.CommitRev <= cur.rev {
			x.Fail("C01|revision-order|"+w.engine, "%s committed revision %d after the key already was %v", name, op.CommitRev, cur)
		}
		if op.Kind.isDelete() {
			if cur.kind == 1 && (op.Kv == nil || !kvEq(op.Kv, cur.val, cur.rev)) {
				x.Fail("C01|delete-prev-kv|"+w.engine, "delete succeeded on %v but reported previous kv %v", cur, op.Kv)
			}
			cur = kstate{2, op.CommitRev, ""}
			versions[op.CommitRev] = "tombstone"
		} else {
			cur = kstate{1, op.CommitRev, op.Val}
			versions[op.CommitRev] = op.Val
		}
		timeline = append(timeline, tl{op.CommitStep, cur})
	}
	// failures must be justified by a moment in flight at which the key differed from the expectation
	for _, op := range w.ops {
		if op.Key != key || !op.done || !op.Failed {
			continue
		}
		var during []kstate
		for i, t := range timeline {
			next := 1 << 60
			if i+1 < len(timeline) {
				next = timeline[i+1].step
			}
			// state t.s holds during [t.step, next)
			if t.step <= op.Ret && next > op.Call {
				during = append(during, t.s)
			}
		}
		justified := false
		for _, s := range during {
			switch {
			case op.Kind.isCreate():
				justified = justified || s.kind == 1
			case op.Exp != 0:
				justified = justified || !(s.kind == 1 && s.rev == op.Exp)
			default:
				justified = justified || s.kind != 1
			}
		}
		if op.Kind == rDel0 && len(during) > 1 {
			justified = true // the key changed while the request was in flight
		}
		if !justified {
			x.Fail("C01|spurious-failure|"+w.engine+"|"+reqNames[op.Kind], "%s (expecting %d) reported a failed condition but the key was %v during its whole flight [%d,%d]", reqNames[op.Kind], op.Exp, during, op.Call, op.Ret)
		}
	}
	// storage: exactly the initial versions plus one version per success; index = newest
	var gotIdx *hx.Rec
	got := map[uint64]string{}
	for _, r := range w.dump() {
		r := r
		if r.Raw || r.Key != key {
			continue
		}
		if r.Rev == 0 {
			gotIdx = &r
		} else {
			got[r.Rev] = string(r.Val)
		}
	}
	if fmt.Sprint(sortedVersions(got)) != fmt.Sprint(sortedVersions(versions)) {
		x.Fail("C01|storage-versions|"+w.engine, "version records of %s are %v, expected %v (successes: %s)", key, sortedVersions(got), sortedVersions(versions), w.succString(succ))
	}
	switch {
	case cur.kind == 0:
		if gotIdx != nil {
			x.Fail("C01|storage-index|"+w.engine, "index record present (%d,%v) for an absent key", gotIdx.IdxRev, gotIdx.IdxTomb)
		}
	case gotIdx == nil:
		x.Fail("C01|storage-index|"+w.engine, "index record missing, key should be %v", cur)
	case gotIdx.IdxRev != cur.rev || gotIdx.IdxTomb != (cur.kind == 2):
		x.Fail("C01|storage-index|"+w.engine, "index record is (%d, tombstone=%v), key should be %v", gotIdx.IdxRev, gotIdx.IdxTomb, cur)
	}
	return cur
}

func sortedVersions(m map[uint64]string) []string {
	var ks []uint64
	for k := range m {
		ks = append(ks, k)
	}
	sort.Slice(ks, func(i, j int) bool { return ks[i] < ks[j] })
	var out []string
	for _, k := range ks {
		out = append(out, fmt.Sprintf("%d=%s", int64(k)-base, m[k]))
	}
	return out
}

func (w *world) succString(succ []*clientOp) string {
	var s []string
	for _, op := range succ {
		s = append(s, fmt.Sprintf("%s(exp %d)->%d@step%d", reqNames[op.Kind], int64(op.Exp)-base, int64(op.CommitRev)-base, op.CommitStep))
	}
	return strings.Join(s, ", ")
}

// checkFinalReads: a point read and a range read at the newest revision agree with the key state.
func (w *world) checkFinalReads(x *mc.X, key string, cur kstate, prop string) {
	_, issued := backend.VerifPeek(w.b)
	g, err := w.b.Get(bg, &proto.GetRequest{Key: []byte(key)})
	if err != nil {
		x.Fail(prop+"|final-get-error|"+w.engine, "final Get failed: %v", err)
		return
	}
	if cur.kind == 1 {
		if !kvEq(g.Kv, cur.val, cur.rev) {
			x.Fail(prop+"|final-get|"+w.engine, "final Get returned %v, key should be %v with value %q", g.Kv, cur, cur.val)
		}
	} else if g.Kv != nil {
		x.Fail(prop+"|final-get|"+w.engine, "final Get returned %v, key should be %v", g.Kv, cur)
	}
	l, err := w.b.List(bg, &proto.RangeRequest{Key: []byte("/r/"), End: []byte("/r0"), Revision: issued})
	if err != nil {
		x.Fail(prop+"|final-list-error|"+w.engine, "final List failed: %v", err)
		return
	}
	var found *proto.KeyValue
	for _, kv := range l.Kvs {
		if bytes.Equal(kv.Key, []byte(key)) {
			found = kv
		}
	}
	if cur.kind == 1 && !kvEq(found, cur.val, cur.rev) || cur.kind != 1 && found != nil {
		x.Fail(prop+"|final-list|"+w.engine, "final List returned %v for %s, key should be %v", found, key, cur)
	}
}

// obs renders the client-visible outcome of an execution.
func (w *world) obs(final kstate) string {
	var s []string
	for _, op := range w.ops {
		r := "err"
		switch {
		case op.OK:
			r = fmt.Sprintf("ok@%d", int64(op.Hdr)-base)
		case op.Failed:
			r = "fail"
		}
		s = append(s, reqNames[op.Kind]+":"+r)
	}
	sort.Strings(s)
	return strings.Join(s, " ") + " => " + final.String()
}

// ---------------------------------------------------------------------------------------------
// scenario family: n client threads, each issuing a list of requests on one shared key

type writeCfg struct {
	engine  string
	init    string
	threads [][]reqKind
	prop    string
}

func (c writeCfg) name() string {
	var ts []string
	for _, t := range c.threads {
		var rs []string
		for _, r := range t {
			rs = append(rs, reqNames[r])
		}
		ts = append(ts, strings.Join(rs, ","))
	}
	return fmt.Sprintf("%s/%s/init=%s/%s", c.prop, c.engine, c.init, strings.Join(ts, "|"))
}

const sharedKey = "/r/a"

func writeScenario(c writeCfg, extra func(w *world, x *mc.X, st initState, final kstate)) *mc.Scenario {
	return &mc.Scenario{Name: c.name(), TolerateNondet: c.engine != hx.Mem, Body: func(x *mc.X) {
		w := newWorld(c.engine, 16)
		defer w.close()
		st := w.buildInit(c.init, sharedKey)
		vrt.BeginExplore()
		var ths []*vrt.Thread
		for ti, reqs := range c.threads {
			ti, reqs := ti, reqs
			ths = append(ths, vrt.Go(func() {
				exp := uint64(0)
				for ri, k := range reqs {
					e := st.expFor(k)
					if ri > 0 && (k == rUpdOK || k == rDelOK) && exp != 0 {
						e = exp // chain on this thread's own previous success
					}
					op := &clientOp{Key: sharedKey, Kind: k, Exp: e, Val: fmt.Sprintf("t%d.%d", ti, ri)}
					w.do(op)
					if op.OK && !k.isDelete() {
						exp = op.Hdr
					}
				}
			}))
		}
		for _, t := range ths {
			vrt.Join(t)
		}
		vrt.Quiesce()
		vrt.EndExplore()
		w.attribute()
		final := w.checkChainFor(x, c.prop, st)
		if extra != nil {
			extra(w, x, st, final)
		}
		x.Obs = w.obs(final)
		w.clean = true
	}}
}

// checkChainFor runs the C01 oracle; for other properties its violations are not reported (they
// are C01's business) but the final state is still needed.
func (w *world) checkChainFor(x *mc.X, prop string, st initState) kstate {
	if prop == "C01" {
		final := w.checkChain(x, sharedKey, st)
		w.checkFinalReads(x, sharedKey, final, "C01")
		return final
	}
	tmp := &mc.X{}
	return w.checkChain(tmp, sharedKey, st)
}

var allInits = []string{"none", "live", "deleted", "compacted"}

// pairs returns all unordered pairs (with repetition) of request kinds.
func reqPairs() [][2]reqKind {
	var out [][2]reqKind
	for a := reqKind(0); a < nReqKinds; a++ {
		for b := a; b < nReqKinds; b++ {
			out = append(out, [2]reqKind{a, b})
		}
	}
	return out
}

// canSucceed: can a request of kind k succeed from this initial state (directly)?
func canSucceed(init string, k reqKind) bool {
	switch init {
	case "live":
		return k == rUpdOK || k == rDelOK || k == rDel0
	default:
		return k.isCreate()
	}
}
