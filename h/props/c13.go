package props

import (
	"bytes"
	"fmt"
	"sort"
	"strings"
	"time"

	proto "github.com/kubewharf/kubebrain-client/api/v2rpc"

	"github.com/kubewharf/kubebrain/pkg/backend"
	"github.com/kubewharf/kubebrain/pkg/backend/scanner"
	"github.com/kubewharf/kubebrain/pkg/storage"
	"github.com/kubewharf/kubebrain/zz_verif/h/hx"
	"github.com/kubewharf/kubebrain/zz_verif/h/mc"
	"github.com/kubewharf/kubebrain/zz_verif/rt/vrt"
)

// C13 — range results do not depend on how the engine partitions the key space.

var c13Keys = []string{"/r/a", "/r/a/b", "/r/b"}
var c13Neighbours = []string{"/r/0", "/r/a0", "/r/c"} // raw keys that are not stored

func c13Alphabet() []seqOp {
	var out []seqOp
	for k := range c13Keys {
		out = append(out, seqOp{k, rCreate, "v1"}, seqOp{k, rUpdOK, "v2"}, seqOp{k, rDelOK, ""})
	}
	return out
}

type c13World struct {
	*world
	m     *mvcc
	x     *mc.SeqOut
	nPart int
	maxB  int
}

func (w *c13World) fail(sig, format string, a ...interface{}) {
	sig = "C13|" + sig
	for _, v := range w.x.Viols {
		if v.Sig == sig {
			return
		}
	}
	w.x.Viols = append(w.x.Viols, mc.Violation{Sig: sig, Detail: fmt.Sprintf(format, a...)})
}

// borderCandidates: every stored internal key plus well-formed internal keys of stored and absent raw keys.
func (w *c13World) borderCandidates() [][]byte {
	seen := map[string]bool{}
	var out [][]byte
	add := func(b []byte) {
		if !seen[string(b)] {
			seen[string(b)] = true
			out = append(out, b)
		}
	}
	lo, hi := hx.Coder.EncodeObjectKey([]byte("/r/"), 0), hx.Coder.EncodeObjectKey([]byte("/r0"), 0)
	for _, r := range hx.Dump(w.kv) {
		if bytes.Compare(r.Key, lo) > 0 && bytes.Compare(r.Key, hi) < 0 {
			add(r.Key)
		}
	}
	revs := []uint64{0, 1, base + 1, base + 2, 999999, ^uint64(0)}
	for _, k := range append(append([]string{}, c13Keys...), c13Neighbours...) {
		for _, r := range revs {
			add(hx.Coder.EncodeObjectKey([]byte(k), r))
		}
	}
	sort.Slice(out, func(i, j int) bool { return bytes.Compare(out[i], out[j]) < 0 })
	return out
}

func describeBorder(b []byte) string {
	uk, rev, err := hx.Coder.Decode(b)
	if err != nil {
		return fmt.Sprintf("%x", b)
	}
	if rev > 1<<62 {
		return fmt.Sprintf("%s$max", uk)
	}
	if rev >= base-100 && rev < base+1000 {
		return fmt.Sprintf("%s$%d", uk, int64(rev)-base)
	}
	return fmt.Sprintf("%s$#%d", uk, rev)
}

// classify a border set: does a border fall strictly inside one stored key's records?
func (w *c13World) splitsKey(borders [][]byte) bool {
	for _, b := range borders {
		uk, rev, err := hx.Coder.Decode(b)
		if err != nil || rev == 0 {
			continue
		}
		if len(w.m.keys[string(uk)]) > 0 {
			return true
		}
	}
	return false
}

func (w *c13World) setPartitions(borders [][]byte, perm []int) {
	w.kv.Partitions = func(start, end []byte) []storage.Partition {
		var in [][]byte
		for _, b := range borders {
			if bytes.Compare(b, start) > 0 && bytes.Compare(b, end) < 0 {
				in = append(in, b)
			}
		}
		sort.Slice(in, func(i, j int) bool { return bytes.Compare(in[i], in[j]) < 0 })
		var ps []storage.Partition
		prev := start
		for _, b := range in {
			ps = append(ps, storage.Partition{Start: prev, End: b})
			prev = b
		}
		ps = append(ps, storage.Partition{Start: prev, End: end})
		if len(perm) == len(ps) {
			out := make([]storage.Partition, len(ps))
			for i, p := range perm {
				out[i] = ps[p]
			}
			return out
		}
		return ps
	}
}

type streamOut struct {
	kvs       []*proto.KeyValue
	err       string
	nterm     int
	badHeader string
	afterTerm bool
}

func (w *c13World) streamRaw(start, end []byte, rev uint64) streamOut {
	var so streamOut
	ch, err := w.b.ListByStream(bg, start, end, rev)
	if err != nil {
		so.err, so.nterm = err.Error(), 1
		return so
	}
	for {
		vrt.Recv(ch)
		resp, ok := <-ch
		vrt.Recvd()
		if !ok {
			break
		}
		if resp.RangeResponse == nil {
			so.badHeader = "nil range response"
			continue
		}
		if !resp.RangeResponse.More {
			so.nterm++
			so.err = resp.Err
			continue
		}
		if so.nterm > 0 {
			so.afterTerm = true
		}
		if h := resp.RangeResponse.Header.GetRevision(); h != rev && so.badHeader == "" {
			so.badHeader = fmt.Sprintf("data batch with %d keys carries header revision %d, the stream was read at %d", len(resp.RangeResponse.Kvs), int64(h)-base, int64(rev)-base)
		}
		so.kvs = append(so.kvs, resp.RangeResponse.Kvs...)
	}
	return so
}

func sortKvs(kvs []*proto.KeyValue) []*proto.KeyValue {
	out := append([]*proto.KeyValue{}, kvs...)
	sort.SliceStable(out, func(i, j int) bool { return string(out[i].Key) < string(out[j].Key) })
	return out
}

// checkPartitioning runs the four read paths under the installed partitioning.
func (w *c13World) checkPartitioning(desc string, split bool, sorted bool) {
	committed := w.b.GetCurrentRevision()
	cls := ""
	if split {
		cls = "|border-inside-a-key"
	}
	lo, hi := hx.Coder.EncodeObjectKey([]byte("/r/"), 0), hx.Coder.EncodeObjectKey([]byte("/r0"), 0)
	for r := uint64(base + 1); r <= committed; r++ {
		want, _ := w.m.list("/r/", "/r0", r, 0)
		w.x.Evals += 4
		l, err := w.b.List(bg, &proto.RangeRequest{Key: []byte("/r/"), End: []byte("/r0"), Revision: r})
		if err != nil {
			w.fail("list-error"+cls, "%s: List at %d failed: %v", desc, int64(r)-base, err)
		} else if !sameKvs(l.Kvs, want) {
			w.fail("list"+cls, "%s: List at %d returns %s, the unpartitioned snapshot holds %s", desc, int64(r)-base, kvsString(l.Kvs), mkvString(want))
		}
		if r == committed {
			c, err := w.b.Count(bg, &proto.CountRequest{Key: []byte("/r/"), End: []byte("/r0")})
			if err != nil {
				w.fail("count-error"+cls, "%s: Count failed: %v", desc, err)
			} else if int(c.Count) != len(want) {
				w.fail("count"+cls, "%s: Count returns %d, the snapshot holds %d keys %s", desc, c.Count, len(want), mkvString(want))
			}
		}
		so := w.streamRaw(lo, hi, r)
		if so.nterm != 1 || so.afterTerm {
			w.fail("stream-terminator"+cls, "%s: stream at %d: %d terminators, data after terminator=%v", desc, int64(r)-base, so.nterm, so.afterTerm)
		}
		if so.err != "" {
			w.fail("stream-error"+cls, "%s: stream at %d failed: %s", desc, int64(r)-base, so.err)
		} else {
			if so.badHeader != "" {
				w.fail("stream-batch-revision", "%s: %s", desc, so.badHeader)
			}
			if !sameKvs(sortKvs(so.kvs), want) {
				w.fail("stream"+cls, "%s: whole-interval stream at %d delivers %s, the snapshot holds %s", desc, int64(r)-base, kvsString(sortKvs(so.kvs)), mkvString(want))
			}
		}
		// per advertised partition
		pr, err := w.b.GetPartitions(bg, &proto.ListPartitionRequest{Key: []byte("/r/"), End: []byte("/r0")})
		if err != nil {
			w.fail("partitions-error", "%s: GetPartitions failed: %v", desc, err)
			continue
		}
		scls := cls
		if !sorted {
			scls += "|engine-reports-unsorted"
		}
		if int(pr.PartitionNum)+1 != len(pr.PartitionKeys) {
			w.fail("partitions-shape"+scls, "%s: %d partitions advertised with %d keys", desc, pr.PartitionNum, len(pr.PartitionKeys))
			continue
		}
		var all []*proto.KeyValue
		bad := false
		for i := 0; i+1 < len(pr.PartitionKeys); i++ {
			ps := w.streamRaw(pr.PartitionKeys[i], pr.PartitionKeys[i+1], r)
			if ps.nterm != 1 || ps.afterTerm {
				w.fail("partition-stream-terminator"+scls, "%s: stream over advertised partition %d at %d: %d terminators", desc, i, int64(r)-base, ps.nterm)
			}
			if ps.err != "" {
				bad = true
				w.fail("partition-stream-error"+scls, "%s: stream over advertised partition %d [%s,%s) at %d failed: %s", desc, i, describeBorder(pr.PartitionKeys[i]), describeBorder(pr.PartitionKeys[i+1]), int64(r)-base, ps.err)
			}
			all = append(all, ps.kvs...)
		}
		if !bad && !sameKvs(sortKvs(all), want) {
			w.fail("advertised-partitions"+scls, "%s: concatenating the streams over the advertised partitions at %d gives %s, the snapshot holds %s", desc, int64(r)-base, kvsString(sortKvs(all)), mkvString(want))
		}
	}
}

func permutations(n int) [][]int {
	if n == 1 {
		return [][]int{{0}}
	}
	var out [][]int
	for _, p := range permutations(n - 1) {
		for i := 0; i <= len(p); i++ {
			q := append(append(append([]int{}, p[:i]...), n-1), p[i:]...)
			out = append(out, q)
		}
	}
	return out
}

// c13RunTiKV: the same read paths over the TiKV adapter with REAL region borders: for every subset of
// up to two stored internal keys a mock cluster is bootstrapped with those split keys, the history is
// replayed on it and the four read paths are compared with the model (no partition injection).
func c13RunTiKV(hist []int) *mc.SeqOut {
	out := &mc.SeqOut{}
	alpha := c13Alphabet()
	scanner.VerifSetRangeStreamBatch(2)
	// the stored internal keys of this history (engine independent): taken from an in-memory run
	ref := &c13World{world: newWorldCompat(hx.Mem, 16, true), m: newMvcc(), x: out}
	for _, a := range hist {
		o := alpha[a]
		if !ref.applyOp(out, ref.m, "C13", c13Keys[o.key], o) {
			ref.close()
			return out
		}
	}
	var stored [][]byte
	lo, hi := hx.Coder.EncodeObjectKey([]byte("/r/"), 0), hx.Coder.EncodeObjectKey([]byte("/r0"), 0)
	for _, r := range hx.Dump(ref.kv) {
		if bytes.Compare(r.Key, lo) > 0 && bytes.Compare(r.Key, hi) < 0 {
			stored = append(stored, r.Key)
		}
	}
	ref.clean = true
	ref.close()
	subsets := [][][]byte{}
	for i := range stored {
		subsets = append(subsets, [][]byte{stored[i]})
		for j := i + 1; j < len(stored); j++ {
			subsets = append(subsets, [][]byte{stored[i], stored[j]})
		}
	}
	nPart := 0
	for _, sub := range subsets {
		if mc.Expired() {
			out.Cut = true
			break
		}
		kv, cleanup, err := hx.NewEngine(hx.TiKV, sub...)
		if err != nil {
			panic(err)
		}
		w := &world{engine: hx.TiKV, cleanup: cleanup}
		w.kv = hx.NewDeco(kv, false)
		w.b = backend.NewBackend(w.kv, backend.Config{Prefix: "/r", Identity: "n1", WatchCacheSize: 16, EnableEtcdCompatibility: true}, hx.NopMetrics{})
		w.b.SetCurrentRevision(base)
		vrt.Quiesce()
		cw := &c13World{world: w, m: newMvcc(), x: out}
		ok := true
		for _, a := range hist {
			o := alpha[a]
			if !cw.applyOp(out, cw.m, "C13", c13Keys[o.key], o) {
				ok = false
				break
			}
		}
		if ok {
			var ds []string
			for _, b := range sub {
				ds = append(ds, describeBorder(b))
			}
			nPart++
			cw.checkPartitioning(fmt.Sprintf("tikv regions split at [%s]", strings.Join(ds, ", ")), cw.splitsKey(sub), true)
		}
		cleanup()
		if len(out.Viols) > 0 {
			break
		}
	}
	if !out.Cut && len(out.Viols) == 0 {
		out.Key = fmt.Sprint(hist)
	}
	out.Obs = fmt.Sprintf("tikv-region-layouts=%d", nPart)
	return out
}

// configurations: 0 = injected layouts of up to 2 borders, 1 = real region splits of the tikv mock cluster,
// 2 = injected layouts of up to 3 borders (pairs over the full candidate set, triples over the reduced set)
func c13Run() func(cfg int, hist []int) *mc.SeqOut {
	return func(cfg int, hist []int) *mc.SeqOut {
		if cfg == 1 {
			return c13RunTiKV(hist)
		}
		maxBorders := 2
		if cfg == 2 {
			maxBorders = 3
		}
		out := &mc.SeqOut{}
		alpha := c13Alphabet()
		scanner.VerifSetRangeStreamBatch(2)
		w := &c13World{world: newWorldCompat(hx.Mem, 16, true), m: newMvcc(), x: out}
		defer w.close()
		for _, a := range hist {
			o := alpha[a]
			if !w.applyOp(out, w.m, "C13", c13Keys[o.key], o) {
				return out
			}
		}
		// border subsets, partitions reported in several orders
		cands := w.borderCandidates()
		// reduced candidate set for the larger subsets: stored records and index-shaped keys of absent neighbours
		var reduced [][]byte
		for _, c := range cands {
			uk, rev, _ := hx.Coder.Decode(c)
			_, stored := w.m.keys[string(uk)]
			if rev == 0 || (stored && rev > base && rev < base+100) {
				reduced = append(reduced, c)
			}
		}
		try := func(chosen [][]byte, allOrders bool) {
			var ds []string
			for _, b := range chosen {
				ds = append(ds, describeBorder(b))
			}
			split := w.splitsKey(chosen)
			perms := permutations(len(chosen) + 1)
			if !allOrders {
				n := len(chosen) + 1
				rev := make([]int, n)
				id := make([]int, n)
				for i := range rev {
					rev[i] = n - 1 - i
					id[i] = i
				}
				perms = [][]int{id, rev}
			}
			for _, perm := range perms {
				if mc.Expired() {
					out.Cut = true
					return
				}
				w.setPartitions(chosen, perm)
				w.nPart++
				w.checkPartitioning(fmt.Sprintf("borders [%s] reported in order %v", strings.Join(ds, ", "), perm), split, isIdentity(perm))
			}
		}
		for _, c := range cands {
			try([][]byte{c}, true)
		}
		// pairs: reduced set in every order of the three partitions (thorough) / two orders (quick);
		// thorough adds pairs over the full candidate set in two orders and triples over the reduced set
		for i := range reduced {
			for j := i + 1; j < len(reduced) && !out.Cut; j++ {
				try([][]byte{reduced[i], reduced[j]}, maxBorders >= 3)
			}
		}
		if maxBorders >= 3 {
			isReduced := map[string]bool{}
			for _, r := range reduced {
				isReduced[string(r)] = true
			}
			for i := range cands {
				for j := i + 1; j < len(cands) && !out.Cut; j++ {
					if isReduced[string(cands[i])] && isReduced[string(cands[j])] {
						continue
					}
					try([][]byte{cands[i], cands[j]}, false)
				}
			}
			for i := range reduced {
				for j := i + 1; j < len(reduced); j++ {
					for k := j + 1; k < len(reduced) && !out.Cut; k++ {
						try([][]byte{reduced[i], reduced[j], reduced[k]}, false)
					}
				}
			}
		}
		w.kv.Partitions = nil
		if !out.Cut {
			out.Key = w.m.canon()
		}
		out.Obs = fmt.Sprintf("partitionings=%d", w.nPart)
		w.clean = true
		return out
	}
}

// ---- schedules: the partition workers of one scan overlap ----
//
// The scanner runs one goroutine per partition; they share the request's receiver.  Every schedule of
// the workers of a List / Count / streamed range over two partitions (qualifying keys on both sides of
// the border) must give the unpartitioned snapshot.

func c13SchedScenario(read string) *mc.Scenario {
	return &mc.Scenario{Name: "C13/sched/two-partitions/" + read, Body: func(x *mc.X) {
		out := &mc.SeqOut{}
		scanner.VerifSetRangeStreamBatch(2)
		w := &c13World{world: newWorldCompat(hx.Mem, 16, true), m: newMvcc(), x: out}
		defer w.close()
		for _, o := range []seqOp{{0, rCreate, "v1"}, {1, rCreate, "v1"}, {2, rCreate, "v1"}, {0, rUpdOK, "v2"}, {2, rUpdOK, "v2"}} {
			if !w.applyOp(out, w.m, "C13", c13Keys[o.key], o) {
				panic("initial history failed")
			}
		}
		// one border on the index record of the second key: /r/a on the left, /r/a/b and /r/b on the right
		w.setPartitions([][]byte{hx.Coder.EncodeRevisionKey([]byte(c13Keys[1]))}, nil)
		rev := w.b.GetCurrentRevision()
		want, _ := w.m.list("/r/", "/r0", rev, 0)
		var kvs []*proto.KeyValue
		var cnt int = -1
		var rerr string
		nterm := 1
		vrt.BeginExplore()
		t := vrt.Go(func() {
			switch read {
			case "list":
				l, err := w.b.List(bg, &proto.RangeRequest{Key: []byte("/r/"), End: []byte("/r0"), Revision: rev})
				if err != nil {
					rerr = err.Error()
				} else {
					kvs = l.Kvs
				}
			case "count":
				c, err := w.b.Count(bg, &proto.CountRequest{Key: []byte("/r/"), End: []byte("/r0")})
				if err != nil {
					rerr = err.Error()
				} else {
					cnt = int(c.Count)
				}
			default:
				so := w.streamRaw(hx.Coder.EncodeObjectKey([]byte("/r/"), 0), hx.Coder.EncodeObjectKey([]byte("/r0"), 0), rev)
				kvs, rerr, nterm = sortKvs(so.kvs), so.err, so.nterm
				if so.badHeader != "" {
					x.Fail("C13|stream-batch-revision|concurrent-workers", "%s", so.badHeader)
				}
				if so.afterTerm {
					x.Fail("C13|stream-data-after-terminator|concurrent-workers", "data after the terminator")
				}
			}
		})
		vrt.Join(t)
		vrt.Quiesce()
		vrt.EndExplore()
		switch {
		case rerr != "":
			x.Fail("C13|read-error|concurrent-workers|"+read, "%s over two partitions failed: %s", read, rerr)
		case nterm != 1:
			x.Fail("C13|stream-terminators|concurrent-workers", "the stream ended with %d terminators", nterm)
		case read == "count":
			if cnt != len(want) {
				x.Fail("C13|partitioned-count|concurrent-workers", "Count over two partitions answered %d, the snapshot holds %s", cnt, mkvString(want))
			}
		case !sameKvs(kvs, want):
			x.Fail("C13|partitioned-"+read+"|concurrent-workers", "%s over two partitions (border on the index record of %s) returned %s, the unpartitioned snapshot is %s", read, c13Keys[1], kvsString(kvs), mkvString(want))
		}
		w.kv.Partitions = nil
		x.Viols = append(x.Viols, out.Viols...)
		x.Obs = fmt.Sprintf("%s keys=%d count=%d", read, len(kvs), cnt)
		w.clean = true
	}}
}

func isIdentity(p []int) bool {
	for i, v := range p {
		if i != v {
			return false
		}
	}
	return true
}

func init() {
	mc.SeqHorizon = 50000000
	mc.Register(&mc.Property{
		ID:     "C13",
		Level:  "model_checking",
		Rule:   "explicit-state BFS over write histories on 3 keys (multi-version, tombstoned, re-created); in every state every subset of up to 2 (thorough 3) partition borders drawn from all stored internal keys and well-formed internal keys (stored and absent raw keys x revisions 0,1,existing,absent,max), with the partitions reported in every order, is installed under the real scanner; at every read revision an unlimited List, Count, a whole-interval stream and the concatenation of streams over the advertised partitions are compared with the unpartitioned snapshot (versioned-map model); stream batch size shrunk to 2; every data batch must carry the read revision and every stream exactly one terminator, last; plus every schedule (preemption-bounded) of the partition workers of one streamed range / List / Count over two partitions with keys on both sides of the border",
		Assume: []string{"partition layout injected at the storage.KvStorage seam over memkv (thorough: real region splits of the tikv mock cluster)", "the history search uses a single client and the default schedule; overlapping partition workers are covered by the schedule scenarios"},
		Exec: func(j *mc.Job) *mc.JobResult {
			return mc.SeqExec(j, c13Run())
		},
		Scenarios: func(tier string) []*mc.Scenario {
			return []*mc.Scenario{c13SchedScenario("stream"), c13SchedScenario("list"), c13SchedScenario("count")}
		},
		Drive: func(c *mc.Ctx) {
			full0 := c.Deadline
			c.Deadline = c.Start.Add(full0.Sub(c.Start) / 4)
			mc.DriveSchedules(c, func(i int, sc *mc.Scenario) mc.SchedPlan {
				p := mc.SchedPlan{Class: "overlapping-partition-workers", Bounds: []int{0, 1}, Shard: true}
				if c.Tier == "thorough" {
					p.Bounds = []int{0, 1, 2}
				}
				return p
			})
			c.Deadline = full0
			depth := 3
			mc.SeqFullDepth = 1 // every state costs thousands of partitionings; its oracle reads, it does not write
			mc.SeqOpsPerJob = 1 // one (expensive) execution per worker job
			st := mc.DriveSeq(c, "bfs", 0, len(c13Alphabet()), depth)
			c.Cov["bfs"] = st
			if c.Tier == "thorough" {
				// real region borders on the tikv mock cluster, within a third of the remaining budget,
				// then layouts of up to three borders
				full := c.Deadline
				c.Deadline = time.Now().Add(full.Sub(time.Now()) / 3)
				st2 := mc.DriveSeq(c, "bfs", 1, len(c13Alphabet()), 2)
				c.Cov["bfs_tikv_real_regions"] = st2
				c.Deadline = full
				st3 := mc.DriveSeq(c, "bfs", 2, len(c13Alphabet()), depth)
				c.Cov["bfs_three_borders"] = st3
				for _, o := range []mc.SeqStats{st2, st3} {
					st.States += o.States
					st.Transitions += o.Transitions
					st.Evals += o.Evals
				}
			}
			c.Cov["states"] = st.States
			c.Cov["transitions"] = st.Transitions
			c.Cov["oracle_evaluations"] = st.Evals
		},
	})
}
