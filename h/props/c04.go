package props

import (
	"fmt"
	"strings"
	"time"
	"unsafe"

	proto "github.com/kubewharf/kubebrain-client/api/v2rpc"

	"github.com/kubewharf/kubebrain/pkg/backend"
	"github.com/kubewharf/kubebrain/pkg/backend/common"
	"github.com/kubewharf/kubebrain/zz_verif/h/hx"
	"github.com/kubewharf/kubebrain/zz_verif/h/mc"
	"github.com/kubewharf/kubebrain/zz_verif/rt/vatomic"
	"github.com/kubewharf/kubebrain/zz_verif/rt/vrt"
)

// C04 — every issued revision is resolved: reads never overtake a write and never stall.

// installMonitor checks after every scheduling step that the read revision has not reached the
// revision of an attempt whose storage transaction has not finished.
func (w *world) installMonitor() {
	inflight := map[string]uint64{} // thread -> issued revision not yet resolved
	// every event the monitor's predicate depends on is a mark, so that their relative order is part
	// of the state fingerprint and the state cache stays sound for this oracle
	vatomic.AddHook = func(_ unsafe.Pointer, v uint64) {
		vrt.Mark()
		inflight[vrt.CurName()] = v
	}
	vatomic.StoreU64Hook = func(_ unsafe.Pointer, _ uint64) { vrt.Mark() }
	prevStore := vatomic.StoreHook
	vatomic.StoreHook = func(v interface{}) {
		prevStore(v)
		vrt.Mark()
		if we, ok := v.(*common.WatchEvent); ok && we != nil {
			// the attempt has published its outcome: resolved
			if inflight[vrt.CurName()] == we.Revision {
				delete(inflight, vrt.CurName())
			}
		}
	}
	w.kv.OnCommitDone = func(b *hx.BatchRec) {
		vrt.Mark()
		for _, o := range b.Ops {
			if _, rev, err := hx.Coder.Decode(o.Key); err == nil && rev != 0 && o.Kind == "put" && inflight[b.Thread] == rev {
				delete(inflight, b.Thread)
			}
		}
	}
	w.opDone = func(op *clientOp) { delete(inflight, op.Thread) }
	vrt.SetStepHook(func() {
		if w.monitor != "" || len(inflight) == 0 {
			return
		}
		committed, _ := backend.VerifPeek(w.b)
		for th, r := range inflight {
			if committed >= r {
				w.monitor = fmt.Sprintf("read revision is %d while the write stamped %d by thread %s has not finished its storage transaction (step %d)", committed, r, th, vrt.Steps())
			}
		}
	})
}

// c04 request alphabet: what the request is and which outcome class it produces
type c04Req int

const (
	qCreateNew  c04Req = iota // success
	qCreateDup                // failed condition
	qUpdOK                    // success
	qUpdStale                 // failed condition
	qUpdFuture                // rejected: expected revision in the future
	qUpdNeg                   // rejected: negative revision through the etcd path (a huge unsigned value)
	qDelOK                    // success
	qDelMissing               // key not found
	qDelFuture                // rejected
	nC04Req
)

var c04Names = [...]string{"create-new", "create-dup", "upd-ok", "upd-stale", "upd-future", "upd-neg", "del-ok", "del-missing", "del-future"}

type c04Cfg struct {
	threads [][]c04Req
	fault   hx.FaultKind
	faultAt int // commit ordinal (counted after the initial state), -1 none
	// repair: after the requests the retry interval elapses (the unknown-outcome repair loop runs) and
	// its first commit meets this fate: 0 not run, 1 ok, 2 plain error, 3 unknown outcome (dropped)
	repair int
	// light: no watcher is registered (fewer threads): used for the three-writer scenario explored with
	// a preemption in the quick tier
	light bool
}

func (c c04Cfg) name() string {
	var ts []string
	for _, t := range c.threads {
		var rs []string
		for _, r := range t {
			rs = append(rs, c04Names[r])
		}
		ts = append(ts, strings.Join(rs, ","))
	}
	f := "nofault"
	if c.faultAt >= 0 {
		f = fmt.Sprintf("fault%d@commit%d", c.fault, c.faultAt)
	}
	if c.repair > 0 {
		f += fmt.Sprintf("/repair%d", c.repair)
	}
	if c.light {
		f += "/no-watcher"
	}
	return "C04/mem/" + strings.Join(ts, "|") + "/" + f
}

func c04Scenario(c c04Cfg) *mc.Scenario {
	return &mc.Scenario{Name: c.name(), Body: func(x *mc.X) {
		w := newWorld(hx.Mem, 16)
		defer w.close()
		// initial: /r/live exists (for updates / deletes / duplicate creates), /r/t<i> free for creates
		w.mustOK(&clientOp{Key: "/r/live", Kind: rCreate, Val: "i1"})
		w.ops, w.kv.Batches, w.notifs = nil, nil, nil
		liveRev := uint64(base + 1)
		var evCh <-chan []*proto.Event
		if !c.light {
			var werr error
			evCh, werr = w.b.Watch(bg, "/r/", 0)
			if werr != nil {
				panic(werr)
			}
		}
		base0 := w.kv.Commits()
		if c.faultAt >= 0 {
			w.kv.CommitFault = func(n int, b *hx.BatchRec) hx.FaultKind {
				if n-base0 == c.faultAt {
					return c.fault
				}
				return hx.NoFault
			}
		}
		w.installMonitor()
		vrt.BeginExplore()
		var ths []*vrt.Thread
		for ti, reqs := range c.threads {
			ti, reqs := ti, reqs
			ths = append(ths, vrt.Go(func() {
				for ri, q := range reqs {
					op := &clientOp{Val: fmt.Sprintf("t%d.%d", ti, ri)}
					switch q {
					case qCreateNew:
						op.Key, op.Kind = fmt.Sprintf("/r/t%d.%d", ti, ri), rCreate
					case qCreateDup:
						op.Key, op.Kind = "/r/live", rCreate
					case qUpdOK:
						op.Key, op.Kind, op.Exp = "/r/live", rUpdOK, liveRev
					case qUpdStale:
						op.Key, op.Kind, op.Exp = "/r/live", rUpdStale, liveRev-1
					case qUpdFuture:
						op.Key, op.Kind, op.Exp = "/r/live", rUpdFuture, liveRev+5000
					case qUpdNeg:
						op.Key, op.Kind, op.Exp = "/r/live", rUpdFuture, uint64(0xffffffffffffffff) // int64(-1) as the etcd shim converts it
					case qDelOK:
						op.Key, op.Kind, op.Exp = "/r/live", rDelOK, liveRev
					case qDelMissing:
						op.Key, op.Kind = "/r/missing", rDel0
					case qDelFuture:
						op.Key, op.Kind, op.Exp = "/r/live", rDelFuture, liveRev+5000
					}
					w.do(op)
					if w.opDone != nil {
						w.opDone(op)
					}
				}
			}))
		}
		for _, t := range ths {
			vrt.Join(t)
		}
		vrt.Quiesce()
		vrt.EndExplore()
		vrt.SetStepHook(nil)
		if w.monitor != "" {
			x.Fail("C04|read-overtakes-write|mem", "%s", w.monitor)
		}
		committed, issued := backend.VerifPeek(w.b)
		var outs []string
		for _, op := range w.ops {
			r := "err"
			if op.OK {
				r = "ok"
			} else if op.Failed {
				r = "fail"
			}
			outs = append(outs, r)
		}
		if committed != issued {
			var kinds []string
			for _, t := range c.threads {
				for _, q := range t {
					kinds = append(kinds, c04Names[q])
				}
			}
			cls := "other"
			for _, k := range kinds {
				if strings.HasSuffix(k, "-future") || strings.HasSuffix(k, "-neg") {
					cls = "rejected-expected-revision"
				}
			}
			if c.faultAt >= 0 {
				cls += fmt.Sprintf("+fault%d", c.fault)
			}
			x.Fail("C04|stall|"+cls, "after all requests returned and the node is quiescent the read revision is %d but %d was handed out (requests %v, outcomes %v)", committed, issued, kinds, outs)
		}
		if c.repair > 0 {
			// the retry interval elapses: the repair loop rewrites what it finds; its first commit may fail too
			hit := false
			w.kv.CommitFault = func(n int, b *hx.BatchRec) hx.FaultKind {
				if b.Thread == "0.2" && !hit {
					hit = true
					return []hx.FaultKind{hx.NoFault, hx.NoFault, hx.FailPlain, hx.UncertainDropped}[c.repair]
				}
				return hx.NoFault
			}
			for i := 0; i < 3; i++ {
				vrt.Advance(6 * time.Second)
				vrt.Quiesce()
			}
			committed, issued = backend.VerifPeek(w.b)
			if committed != issued {
				x.Fail("C04|stall|after-repair", "after the unknown-outcome repair loop ran (fate of its first commit: %d) the read revision is %d but %d was handed out", c.repair, committed, issued)
			}
		}
		// a later write must become readable and watchable
		w.kv.CommitFault = nil
		probe := &clientOp{Key: "/r/probe", Kind: rCreate, Val: "p"}
		w.do(probe)
		vrt.Quiesce()
		if !probe.OK {
			x.Fail("C04|probe-failed", "probe create failed: %v", probe.Err)
		} else {
			l, err := w.b.List(bg, &proto.RangeRequest{Key: []byte("/r/"), End: []byte("/r0")})
			found := false
			if err == nil {
				for _, kv := range l.Kvs {
					found = found || string(kv.Key) == "/r/probe"
				}
			}
			if !found && committed == issued {
				x.Fail("C04|probe-unreadable", "a write issued after quiescence (revision %d) is not returned by a range read at the current revision (err %v)", probe.Hdr, err)
			}
			seen := c.light
			for !c.light {
				n, _, _ := vrt.ChanLen(evCh)
				if n == 0 {
					break
				}
				for _, e := range <-evCh {
					seen = seen || string(e.Kv.Key) == "/r/probe"
				}
			}
			if !seen && committed == issued {
				x.Fail("C04|probe-unwatchable", "a write issued after quiescence (revision %d) was not delivered to a watcher", probe.Hdr)
			}
		}
		x.Obs = strings.Join(outs, ",") + fmt.Sprintf(" lag=%d", issued-committed)
		w.clean = true
	}}
}

func c04Configs(tier string) []c04Cfg {
	var out []c04Cfg
	faults := []hx.FaultKind{hx.FailPlain, hx.UncertainApplied, hx.UncertainDropped}
	// sequential: every request alone and every ordered pair, without fault and with every fault on every commit
	var seqs [][]c04Req
	for a := c04Req(0); a < nC04Req; a++ {
		seqs = append(seqs, []c04Req{a})
		for b := c04Req(0); b < nC04Req; b++ {
			seqs = append(seqs, []c04Req{a, b})
		}
	}
	for _, s := range seqs {
		out = append(out, c04Cfg{threads: [][]c04Req{s}, faultAt: -1})
		for at := 0; at < len(s); at++ {
			for _, f := range faults {
				out = append(out, c04Cfg{threads: [][]c04Req{s}, fault: f, faultAt: at})
				if f != hx.FailPlain {
					for rp := 1; rp <= 3; rp++ {
						out = append(out, c04Cfg{threads: [][]c04Req{s}, fault: f, faultAt: at, repair: rp})
					}
				}
			}
		}
	}
	// concurrent: two or three writers, schedules explored
	conc := [][][]c04Req{
		{{qCreateNew}, {qCreateNew}}, {{qUpdOK}, {qUpdOK}}, {{qUpdOK}, {qCreateNew}}, {{qUpdStale}, {qCreateNew}}, {{qDelOK}, {qUpdOK}},
		{{qDelMissing}, {qCreateNew}}, {{qCreateDup}, {qUpdOK}}, {{qUpdFuture}, {qCreateNew}}, {{qCreateNew}, {qCreateNew}, {qCreateNew}},
		{{qCreateNew, qUpdOK}, {qCreateNew, qDelMissing}},
	}
	out = append(out, c04Cfg{threads: [][]c04Req{{qCreateNew}, {qCreateNew}, {qCreateNew}}, faultAt: -1, light: true})
	// one write stalled in its storage transaction while a second client consumes many later revisions
	// (failed deletes are dealt and notified like any write): slot arithmetic of the result ring
	out = append(out, c04Cfg{threads: [][]c04Req{{qCreateNew}, {qDelMissing, qDelMissing, qDelMissing, qDelMissing, qDelMissing, qDelMissing, qDelMissing, qDelMissing, qDelMissing}}, faultAt: -1, light: true})
	for _, t := range conc {
		out = append(out, c04Cfg{threads: t, faultAt: -1})
		for _, f := range faults {
			out = append(out, c04Cfg{threads: t, fault: f, faultAt: 0})
			if tier == "thorough" {
				out = append(out, c04Cfg{threads: t, fault: f, faultAt: 1})
			}
		}
	}
	return out
}

func init() {
	mc.Register(&mc.Property{
		ID:    "C04",
		Level: "model_checking",
		Rule: "(a) every schedule (preemption-bounded DFS) of 2-3 concurrent writers with a monitor evaluated after every scheduling step (read revision < every unfinished stamped write); " +
			"(b) every request sequence of length 1-2 over 9 outcome classes x every engine fault kind (plain error, unknown outcome applied / not applied) on every commit, run to quiescence: read revision = highest revision handed out, and a probe write is readable and watchable",
		Assume: []string{
			"quiescence is decided by the scheduler (every thread blocked or in a read-only cycle with no pending write), not by a timeout",
			"the virtual clock advances only in the repair variants of the sequential scenarios (the retry loop then runs, with 3 fates of its first commit); convergence of store and events is C09's subject",
			"in-memory engine only",
		},
		Scenarios: func(tier string) []*mc.Scenario {
			var out []*mc.Scenario
			for _, c := range c04Configs(tier) {
				out = append(out, c04Scenario(c))
			}
			return out
		},
		Drive: func(c *mc.Ctx) {
			cfgs := c04Configs(c.Tier)
			mc.DriveSchedules(c, func(i int, sc *mc.Scenario) mc.SchedPlan {
				cfg := cfgs[i]
				if len(cfg.threads) == 1 {
					return mc.SchedPlan{Class: "sequential+faults", Bounds: []int{0}}
				}
				p := mc.SchedPlan{Class: fmt.Sprintf("concurrent/%d", len(cfg.threads)), Bounds: []int{0, 1}}
				if cfg.faultAt >= 0 {
					p.Class += "+fault"
				}
				nreq := 0
				for _, t := range cfg.threads {
					nreq += len(t)
				}
				if c.Tier == "thorough" {
					p.Bounds = []int{0, 1, 2}
					p.Shard = true
				} else if nreq > 2 && !cfg.light {
					p.Bounds = []int{0}
					p.Shard = true
				} else {
					// incl. three writers without fault: a later-allocated write finishing while an earlier
					// one is still in its storage transaction needs one preemption
					p.Shard = true
				}
				return p
			})
		},
	})
}
