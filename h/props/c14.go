package props

import (
	"bytes"
	"encoding/json"
	"fmt"
	"sort"
	"strings"
	"time"

	apierrors "k8s.io/apimachinery/pkg/api/errors"
	metav1 "k8s.io/apimachinery/pkg/apis/meta/v1"
	"k8s.io/client-go/tools/leaderelection/resourcelock"

	"github.com/kubewharf/kubebrain/pkg/backend/election"
	"github.com/kubewharf/kubebrain/zz_verif/h/hx"
	"github.com/kubewharf/kubebrain/zz_verif/h/mc"
	"github.com/kubewharf/kubebrain/zz_verif/rt/vrt"
)

// C14 — the leader lock is taken by at most one candidate per observed state.

type c14Cfg struct {
	engine     string
	candidates int
	rounds     int
	held       bool // the record initially exists, held by a third identity
}

func (c c14Cfg) name() string {
	return fmt.Sprintf("C14/%s/candidates=%d/rounds=%d/held=%v", c.engine, c.candidates, c.rounds, c.held)
}

const electionKey = "/r/election"

func c14Scenario(c c14Cfg) *mc.Scenario {
	return &mc.Scenario{Name: c.name(), TolerateNondet: c.engine != hx.Mem, Body: func(x *mc.X) {
		kv, release, err := hx.AcquireEngine(c.engine)
		if err != nil {
			panic(err)
		}
		clean := false
		defer func() { release(!clean) }()
		d := hx.NewDeco(kv, true)
		var initial []byte
		if c.held {
			initial, _ = json.Marshal(resourcelock.LeaderElectionRecord{HolderIdentity: "old-leader", LeaseDurationSeconds: 8})
			b := kv.BeginBatchWrite()
			b.Put([]byte(electionKey), initial, 0)
			if err := b.Commit(bg); err != nil {
				panic(err)
			}
		}
		type attempt struct {
			cand   int
			verb   string
			err    error
			call   int
			ret    int
			thread string
			obs    []byte // the record this attempt observed (nil: none)
			hasObs bool
		}
		var attempts []attempt
		observed := map[string][]byte{} // thread -> the record bytes its last acquire-or-renew step observed
		vrt.BeginExplore()
		var ths []*vrt.Thread
		for i := 0; i < c.candidates; i++ {
			i := i
			ths = append(ths, vrt.Go(func() {
				id := fmt.Sprintf("cand%d", i)
				rl := election.NewResourceLockManager(election.Config{Prefix: "/r", Identity: id, Timeout: time.Second}, d).GetResourceLock()
				for r := 0; r < c.rounds; r++ {
					// the record client-go's elector would write: a renewal keeps the acquire time and the
					// transition count of the record it read and moves the renew time; a take-over counts a transition
					now := metav1.NewTime(time.Unix(int64(1000+10*i+r), 0))
					rec := resourcelock.LeaderElectionRecord{HolderIdentity: id, LeaseDurationSeconds: 8, RenewTime: now, AcquireTime: now}
					old, gerr := rl.Get()
					if gerr == nil && old != nil {
						if old.HolderIdentity == id {
							rec.AcquireTime, rec.LeaderTransitions = old.AcquireTime, old.LeaderTransitions
						} else {
							rec.LeaderTransitions = old.LeaderTransitions + 1
						}
					}
					// what this candidate has now read (client-go acts on exactly this observation)
					if v, ok := d.LastGet[vrt.CurName()+"|"+electionKey]; ok && gerr == nil {
						observed[vrt.CurName()] = v
					} else {
						delete(observed, vrt.CurName())
					}
					a := attempt{cand: i, call: vrt.Steps(), thread: vrt.CurName()}
					a.obs, a.hasObs = observed[vrt.CurName()]
					switch {
					case gerr != nil && apierrors.IsNotFound(gerr):
						a.verb = "create"
						a.err = rl.Create(rec)
					case gerr != nil:
						a.verb = "get-error"
						a.err = gerr
					default:
						a.verb = "update"
						a.err = rl.Update(rec)
					}
					a.ret = vrt.Steps()
					attempts = append(attempts, a)
				}
			}))
		}
		for _, t := range ths {
			vrt.Join(t)
		}
		vrt.EndExplore()
		// oracle over the engine trace
		var commits []*hx.BatchRec
		for _, b := range d.Batches {
			touches := false
			for _, o := range b.Ops {
				touches = touches || string(o.Key) == electionKey
			}
			if touches && b.Done {
				commits = append(commits, b)
			}
		}
		sort.SliceStable(commits, func(i, j int) bool { return commits[i].CommitStep < commits[j].CommitStep })
		cur := initial
		creates := 0
		nsucc := 0
		for _, b := range commits {
			for _, o := range b.Ops {
				if string(o.Key) != electionKey {
					continue
				}
				if o.Kind != "pine" && o.Kind != "cas" {
					x.Fail("C14|unconditional-write|"+c.engine, "the lock record was written with an unconditional %s", o.Kind)
				}
				if b.Err != nil {
					continue
				}
				nsucc++
				switch o.Kind {
				case "pine":
					creates++
					if cur != nil {
						x.Fail("C14|create-over-existing|"+c.engine, "creating the lock record succeeded although the record %s existed", cur)
					}
				case "cas":
					if !bytes.Equal(cur, o.Old) {
						x.Fail("C14|update-on-changed-record|"+c.engine, "thread %s updated the lock record conditioned on %s, but the stored record was %s", b.Thread, o.Old, cur)
					}
					for _, a := range attempts {
						if a.thread == b.Thread && b.CommitStep >= a.call && b.CommitStep <= a.ret {
							if !a.hasObs || !bytes.Equal(a.obs, o.Old) {
								x.Fail("C14|update-not-conditioned-on-observed-record|"+c.engine, "thread %s had read the lock record %s, but its update that took effect was conditioned on %s", b.Thread, a.obs, o.Old)
							}
						}
					}
				}
				cur = o.Val
			}
		}
		if creates > 1 {
			x.Fail("C14|two-creates|"+c.engine, "%d candidates created the lock record", creates)
		}
		// a candidate believes it acquired iff one of its commits succeeded
		won := 0
		var outs []string
		for _, a := range attempts {
			if a.err == nil {
				won++
			}
			outs = append(outs, fmt.Sprintf("c%d:%s:%v", a.cand, a.verb, a.err == nil))
		}
		if won != nsucc {
			x.Fail("C14|belief-mismatch|"+c.engine, "%d acquire/renew calls returned success but %d conditional writes took effect (%v)", won, nsucc, outs)
		}
		// the stored record is the last accepted one
		stored, gerr := kv.Get(bg, []byte(electionKey))
		if gerr == nil && !bytes.Equal(stored, cur) || gerr != nil && cur != nil {
			x.Fail("C14|stored-record|"+c.engine, "the stored lock record is %s, the last accepted write was %s", stored, cur)
		}
		sort.Strings(outs)
		x.Obs = strings.Join(outs, " ")
		clean = true
	}}
}

func c14Configs(tier string) []c14Cfg {
	var out []c14Cfg
	for _, held := range []bool{false, true} {
		out = append(out, c14Cfg{hx.Mem, 2, 1, held}, c14Cfg{hx.Mem, 2, 2, held}, c14Cfg{hx.Mem, 3, 1, held})
		out = append(out, c14Cfg{hx.Badger, 2, 1, held}, c14Cfg{hx.TiKV, 2, 1, held})
		if tier == "thorough" {
			out = append(out, c14Cfg{hx.Badger, 2, 2, held}, c14Cfg{hx.TiKV, 2, 2, held}, c14Cfg{hx.Badger, 3, 1, held}, c14Cfg{hx.TiKV, 3, 1, held}, c14Cfg{hx.Mem, 3, 2, held})
		}
	}
	return out
}

func init() {
	mc.Register(&mc.Property{
		ID:     "C14",
		Level:  "model_checking",
		Rule:   "every schedule (engine-call granularity; unbounded preemptions for 2 candidates x 1 round, preemption-bounded otherwise; happens-before state cache) of 2-3 candidates each running the acquire-or-renew step of client-go's elector (Get, then Create if absent else Update, with the record the elector would write: a renewal keeps acquire time and transition count, a take-over counts a transition) on the real resource lock over one store, from an absent record and from a record held by a third identity, on memkv, badger and tikv-mock; oracle on the engine trace: at most one create takes effect, every update that takes effect was conditioned on exactly the bytes stored immediately before it, the record is never written unconditionally, and a candidate believes it won iff its write took effect",
		Assume: []string{"an engine call is one atomic step (scheduling point before each)", "lease-expiry timing of client-go's elector is not modelled: every candidate attempts to take the lock in every round"},
		Scenarios: func(tier string) []*mc.Scenario {
			var out []*mc.Scenario
			for _, c := range c14Configs(tier) {
				out = append(out, c14Scenario(c))
			}
			return out
		},
		Drive: func(c *mc.Ctx) {
			cfgs := c14Configs(c.Tier)
			mc.DriveSchedules(c, func(i int, sc *mc.Scenario) mc.SchedPlan {
				cfg := cfgs[i]
				p := mc.SchedPlan{Class: fmt.Sprintf("%s/%dx%d", cfg.engine, cfg.candidates, cfg.rounds), Shard: true}
				switch {
				case cfg.candidates == 2 && cfg.rounds == 1:
					p.Bounds = []int{0, 1, 2, 3, 64} // 64 = effectively unbounded
				case c.Tier == "thorough":
					p.Bounds = []int{0, 1, 2, 3, 4, 5, 6}
				case cfg.engine == hx.Mem:
					p.Bounds = []int{0, 1, 2, 3, 4}
				default:
					p.Bounds = []int{0, 1, 2}
				}
				return p
			})
		},
	})
}
