package props

import (
	"bytes"
	"fmt"
	"strings"

	proto "github.com/kubewharf/kubebrain-client/api/v2rpc"

	"github.com/kubewharf/kubebrain/pkg/backend"
	smetrics "github.com/kubewharf/kubebrain/pkg/storage/metrics"
	"github.com/kubewharf/kubebrain/zz_verif/h/hx"
	"github.com/kubewharf/kubebrain/zz_verif/h/mc"
	"github.com/kubewharf/kubebrain/zz_verif/rt/vrt"
)

// C12 — client-visible behaviour does not depend on the storage engine.  Every history is executed
// on memkv, badger, tikv-mock and metrics(badger); the normalised transcripts must be identical.

var c12Engines = []string{hx.Mem, hx.Badger, hx.TiKV, "metrics(badger)"}
var c12Keys = []string{"/r/a", "/r/b"}

type c12Op struct {
	kind string // create upd-ok upd-stale upd-0 del-ok del-stale del-0 compact
	key  int
}

func c12Alphabet() []c12Op {
	var out []c12Op
	for k := range c12Keys {
		for _, kd := range []string{"create", "upd-ok", "upd-stale", "upd-0", "del-ok", "del-stale", "del-0"} {
			out = append(out, c12Op{kd, k})
		}
	}
	out = append(out, c12Op{"compact", 0})
	// a compaction during which, just before its first deletion of a record of key a, a client creates a
	out = append(out, c12Op{"compact+create", 0})
	return out
}

// c12Transcript runs the history on one engine and returns the normalised transcript (one line per
// observation) plus the canonical state key.
func c12Transcript(engine string, hist []int) (lines []string, key string) {
	alpha := c12Alphabet()
	kind := strings.TrimSuffix(strings.TrimPrefix(engine, "metrics("), ")")
	kv, release, err := hx.AcquireEngine(kind)
	if err != nil {
		panic(err)
	}
	clean := false
	defer func() { release(!clean) }()
	st := kv
	if strings.HasPrefix(engine, "metrics(") {
		st = smetrics.NewKvStorage(kv, hx.NopMetrics{})
	}
	deco := hx.NewDeco(st, false)
	b := backend.NewBackend(deco, backend.Config{Prefix: "/r", Identity: "n1", WatchCacheSize: 64}, hx.NopMetrics{})
	b.SetCurrentRevision(base)
	vrt.Quiesce()
	evCh, werr := b.Watch(bg, "/r/", 0)
	if werr != nil {
		panic(werr)
	}
	rel := func(r uint64) int64 { return int64(r) - base }
	kvs := func(kv *proto.KeyValue) string {
		if kv == nil {
			return "nil"
		}
		return fmt.Sprintf("%s=%s@%d", kv.Key, kv.Value, rel(kv.Revision))
	}
	// the harness tracks the newest and the previous revision of each key from the answers
	last := map[string][]uint64{}
	for i, a := range hist {
		o := alpha[a]
		k := c12Keys[o.key]
		exp := uint64(0)
		switch o.kind {
		case "upd-ok", "del-ok":
			exp = base // nothing known: any revision
			if l := last[k]; len(l) > 0 {
				exp = l[len(l)-1]
			}
		case "upd-stale", "del-stale":
			exp = base - 1
			if l := last[k]; len(l) > 1 {
				exp = l[len(l)-2]
			}
		}
		line := fmt.Sprintf("%d %s(%s,exp %d): ", i, o.kind, k, rel(exp))
		switch {
		case o.kind == "compact" || o.kind == "compact+create":
			if o.kind == "compact+create" {
				armed := true
				deco.DelFault = func(n int, cur bool, key []byte) error {
					if armed && bytes.Contains(key, []byte(k)) {
						armed = false
						c, cerr := b.Create(bg, &proto.CreateRequest{Key: []byte(k), Value: []byte(fmt.Sprintf("w%d", i))})
						if cerr != nil {
							line += "[create during the compaction: error] "
						} else {
							line += fmt.Sprintf("[create during the compaction: ok=%v rev %d] ", c.Succeeded, rel(c.Header.GetRevision()))
							if c.Succeeded {
								last[k] = append(last[k], c.Header.GetRevision())
							}
						}
					}
					return nil
				}
			}
			r, err := b.Compact(bg, 0)
			deco.DelFault = nil
			if err != nil {
				line += "error"
			} else {
				line += fmt.Sprintf("rev %d", rel(r.Header.GetRevision()))
			}
		case o.kind == "create":
			r, err := b.Create(bg, &proto.CreateRequest{Key: []byte(k), Value: []byte(fmt.Sprintf("v%d", i))})
			if err != nil {
				line += "error"
			} else {
				line += fmt.Sprintf("ok=%v rev %d", r.Succeeded, rel(r.Header.GetRevision()))
				if r.Succeeded {
					last[k] = append(last[k], r.Header.GetRevision())
				}
			}
		case strings.HasPrefix(o.kind, "upd"):
			r, err := b.Update(bg, &proto.UpdateRequest{Kv: &proto.KeyValue{Key: []byte(k), Value: []byte(fmt.Sprintf("v%d", i)), Revision: exp}})
			if err != nil {
				line += "error"
			} else {
				line += fmt.Sprintf("ok=%v rev %d kv %s", r.Succeeded, rel(r.Header.GetRevision()), kvs(r.Kv))
				if r.Succeeded {
					last[k] = append(last[k], r.Header.GetRevision())
				}
			}
		default:
			r, err := b.Delete(bg, &proto.DeleteRequest{Key: []byte(k), Revision: exp})
			if err != nil {
				line += "error"
			} else {
				line += fmt.Sprintf("ok=%v rev %d kv %s", r.Succeeded, rel(r.Header.GetRevision()), kvs(r.Kv))
				if r.Succeeded {
					last[k] = append(last[k], r.Header.GetRevision())
				}
			}
		}
		vrt.Quiesce()
		lines = append(lines, line)
	}
	// reads at every revision
	committed := b.GetCurrentRevision()
	lines = append(lines, fmt.Sprintf("committed %d", rel(committed)))
	for r := uint64(base + 1); r <= committed; r++ {
		for _, k := range c12Keys {
			g, err := b.Get(bg, &proto.GetRequest{Key: []byte(k), Revision: r})
			if err != nil {
				lines = append(lines, fmt.Sprintf("get %s@%d: error", k, rel(r)))
			} else {
				lines = append(lines, fmt.Sprintf("get %s@%d: hdr %d %s", k, rel(r), rel(g.Header.GetRevision()), kvs(g.Kv)))
			}
		}
		l, err := b.List(bg, &proto.RangeRequest{Key: []byte("/r/"), End: []byte("/r0"), Revision: r})
		if err != nil {
			lines = append(lines, fmt.Sprintf("list@%d: error", rel(r)))
		} else {
			s := fmt.Sprintf("list@%d: hdr %d", rel(r), rel(l.Header.GetRevision()))
			for _, kv := range l.Kvs {
				s += " " + kvs(kv)
			}
			lines = append(lines, s)
		}
	}
	for {
		n, _, _ := vrt.ChanLen(evCh)
		if n == 0 {
			break
		}
		for _, e := range <-evCh {
			lines = append(lines, fmt.Sprintf("event %s rev %d %s", e.Type, rel(e.Revision), kvs(e.Kv)))
		}
	}
	key = strings.Join(lines[len(hist):], "\n")
	clean = true
	return lines, key
}

func c12Run(_ int, hist []int) *mc.SeqOut {
	out := &mc.SeqOut{}
	ref, key := c12Transcript(c12Engines[0], hist)
	alpha := c12Alphabet()
	for _, eng := range c12Engines[1:] {
		got, _ := c12Transcript(eng, hist)
		out.Evals += len(got)
		for i := 0; i < len(ref) || i < len(got); i++ {
			var a, b string
			if i < len(ref) {
				a = ref[i]
			}
			if i < len(got) {
				b = got[i]
			}
			if a != b {
				what := "reads"
				if i < len(hist) {
					what = alpha[hist[i]].kind
				} else if strings.HasPrefix(a, "event") || strings.HasPrefix(b, "event") {
					what = "events"
				}
				var hs []string
				for _, h := range hist {
					hs = append(hs, fmt.Sprintf("%s(%s)", alpha[h].kind, c12Keys[alpha[h].key]))
				}
				out.Viols = append(out.Viols, mc.Violation{Sig: "C12|" + eng + "-vs-mem|" + what, Detail: fmt.Sprintf("history %v: mem answers %q, %s answers %q", hs, a, eng, b)})
				break
			}
		}
	}
	out.Key = key
	out.Obs = fmt.Sprintf("%d transcript lines", len(ref))
	return out
}

func init() {
	mc.Register(&mc.Property{
		ID:     "C12",
		Level:  "model_checking",
		Rule:   "explicit-state BFS over sequential request histories (create, update with correct / stale / zero expectation, delete likewise, compaction, and a compaction during which a client creates key a just before the compaction's first deletion of one of a's records (injected at that engine call), on 2 keys that are missing / live / deleted / compacted), each history executed on memkv, badger, tikv-mock and metrics(badger) with one open watcher; transcripts (success flags, relative revisions, failure-branch values, point and range reads at every revision, events; errors normalised to 'error') compared pairwise with memkv; states de-duplicated on the read-back part of the memkv transcript",
		Assume: []string{"single client, default schedule, quiescence after every request", "memkv is the reference (tied to the versioned-map model by C03)"},
		Exec:   func(j *mc.Job) *mc.JobResult { return mc.SeqExec(j, c12Run) },
		Drive: func(c *mc.Ctx) {
			depth := 6
			if c.Tier == "thorough" {
				depth = 8
			}
			st := mc.DriveSeq(c, "bfs", 0, len(c12Alphabet()), depth)
			c.Cov["states"] = st.States
			c.Cov["transitions"] = st.Transitions
			c.Cov["transcript_lines_compared"] = st.Evals
			c.Cov["bfs"] = st
			c.Cov["engines"] = c12Engines
		},
	})
}
