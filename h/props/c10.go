package props

import (
	"bytes"
	"encoding/binary"
	"encoding/json"
	"fmt"
	"sort"

	"github.com/kubewharf/kubebrain/pkg/backend"
	"github.com/kubewharf/kubebrain/pkg/backend/coder"
	"github.com/kubewharf/kubebrain/zz_verif/h/mc"
)

// C10 — internal key encoding is reversible and order-preserving.  Pure functions: bounded-exhaustive
// enumeration of inputs (no scheduler involved).

// the alphabet holds the smallest allowed byte, the path separator, a digit, a letter, the two largest bytes and
// the bytes the implementation itself treats specially (the internal magic prefix is 57 fb 80 8b)
var c10Alphabet = []byte{0x25, '/', '0', 0x57, 'a', 0xfe, 0xff}
var c10Revs = []uint64{0, 1, 2, 0xff, 0x100, 1 << 32, 1 << 63, ^uint64(0) - 1, ^uint64(0)}

var c10AlphabetWide = []byte{0x25, '/', '0', 0x57, 'a', 0x80, 0x8b, 0xfb, 0xfe, 0xff}

func c10Keys(maxLen int) [][]byte {
	out := [][]byte{{}}
	prev := [][]byte{{}}
	for l := 1; l <= maxLen; l++ {
		var cur [][]byte
		for _, p := range prev {
			for _, c := range c10Alphabet {
				k := append(append([]byte{}, p...), c)
				cur = append(cur, k)
			}
		}
		out = append(out, cur...)
		prev = cur
	}
	sort.Slice(out, func(i, j int) bool { return bytes.Compare(out[i], out[j]) < 0 })
	return out
}

type c10Shard struct {
	Shard, Of int
	MaxLen    int
	TriLen    int
	Wide      bool
}

func c10Exec(j *mc.Job) *mc.JobResult {
	var sh c10Shard
	json.Unmarshal(j.Extra, &sh)
	if sh.Wide {
		c10Alphabet = c10AlphabetWide
	}
	res := &mc.JobResult{Outcomes: map[string]int{}}
	cd := coder.NewNormalCoder()
	keys := c10Keys(sh.MaxLen)
	fail := func(sig, f string, a ...interface{}) {
		if len(res.Viols) < 8 {
			res.Viols = append(res.Viols, mc.Violation{Sig: "C10|" + sig, Detail: fmt.Sprintf(f, a...)})
		}
	}
	type enc struct {
		k   []byte
		r   uint64
		enc []byte
	}
	var all []enc
	for _, k := range keys {
		for _, r := range c10Revs {
			all = append(all, enc{k, r, cd.EncodeObjectKey(k, r)})
		}
	}
	cmpKR := func(a, b enc) int {
		if c := bytes.Compare(a.k, b.k); c != 0 {
			return c
		}
		switch {
		case a.r < b.r:
			return -1
		case a.r > b.r:
			return 1
		}
		return 0
	}
	n := 0
	// round trip + order over all pairs (sharded on the first element)
	for i := sh.Shard; i < len(all); i += sh.Of {
		a := all[i]
		uk, rev, err := cd.Decode(a.enc)
		n++
		if err != nil || !bytes.Equal(uk, a.k) || rev != a.r {
			fail("round-trip", "decode(encode(%x,%d)) = (%x,%d,%v)", a.k, a.r, uk, rev, err)
		}
		if a.r == 0 && !bytes.Equal(cd.EncodeRevisionKey(a.k), a.enc) {
			fail("index-key", "EncodeRevisionKey(%x) differs from EncodeObjectKey(%x,0)", a.k, a.k)
		}
		for _, b := range all {
			n++
			if sign(bytes.Compare(a.enc, b.enc)) != cmpKR(a, b) {
				fail("order", "encode(%x,%d) vs encode(%x,%d): byte order %d, (key,revision) order %d", a.k, a.r, b.k, b.r, bytes.Compare(a.enc, b.enc), cmpKR(a, b))
			}
		}
	}
	// range bounds: raw k in [s,e)  <=>  every record of k in [encode(s,0), encode(e,0))
	tri := c10Keys(sh.TriLen)
	for i := sh.Shard; i < len(tri); i += sh.Of {
		s := tri[i]
		es := cd.EncodeObjectKey(s, 0)
		for _, e := range tri {
			if bytes.Compare(s, e) >= 0 {
				continue
			}
			ee := cd.EncodeObjectKey(e, 0)
			for _, k := range keys {
				in := bytes.Compare(k, s) >= 0 && bytes.Compare(k, e) < 0
				for _, r := range []uint64{0, 1, ^uint64(0)} {
					n++
					ek := cd.EncodeObjectKey(k, r)
					got := bytes.Compare(ek, es) >= 0 && bytes.Compare(ek, ee) < 0
					if got != in {
						fail("range-bounds", "key %x revision %d: raw key in [%x,%x) is %v but its record in the encoded interval is %v", k, r, s, e, in, got)
					}
				}
			}
		}
		// prefix bounds
		pe := backend.PrefixEnd(s)
		for _, k := range keys {
			n++
			has := bytes.HasPrefix(k, s)
			var in bool
			if bytes.Equal(pe, []byte{0}) {
				in = bytes.Compare(k, s) >= 0 // documented fallback: from the key to the end
				if len(s) == 0 || allFF(s) {
					if has && !in {
						fail("prefix-end", "prefix %x (no successor): key %x has the prefix but is below it", s, k)
					}
					continue
				}
			} else {
				in = bytes.Compare(k, s) >= 0 && bytes.Compare(k, pe) < 0
			}
			if has != in {
				fail("prefix-end", "prefix %x end %x: key %x has prefix=%v, inside [prefix,end)=%v", s, pe, k, has, in)
			}
		}
	}
	// compaction borders: the intervals a compaction scans for a configured prefix enclose exactly the
	// records of the raw keys under that prefix and under none of the skipped prefixes (each skipped
	// prefix lies inside the node's prefix; sorting the borders cuts it out)
	if sh.Shard == 1%sh.Of {
		cfgs := []struct {
			prefix  string
			skipped []string
		}{{"/", nil}, {"/a", nil}, {"/a/", nil}, {"/", []string{"/a"}}, {"/a", []string{"/a/W"}}, {"/", []string{"/a/", "/W"}}, {"/a/a", nil}, {"a", nil}}
		for _, cf := range cfgs {
			borders := backend.VerifCompactBorders(cf.prefix, cf.skipped)
			var pre [][]byte
			for _, p := range append([]string{cf.prefix}, cf.skipped...) {
				if !bytes.HasSuffix([]byte(p), []byte("/")) {
					p += "/"
				}
				pre = append(pre, []byte(p))
			}
			if len(borders)%2 != 0 {
				fail("compact-borders", "prefix %q skipped %q: odd number of borders", cf.prefix, cf.skipped)
				continue
			}
			for _, e := range all {
				want := bytes.HasPrefix(e.k, pre[0])
				for _, p := range pre[1:] {
					want = want && !bytes.HasPrefix(e.k, p)
				}
				got := false
				for i := 0; i+1 < len(borders); i += 2 {
					got = got || (bytes.Compare(e.enc, borders[i]) >= 0 && bytes.Compare(e.enc, borders[i+1]) < 0)
				}
				n++
				if got != want {
					fail("compact-borders", "node prefix %q, skipped prefixes %q: record (%x,%d) scanned by a compaction: %v, key under the prefix and under no skipped prefix: %v", cf.prefix, cf.skipped, e.k, e.r, got, want)
					break
				}
			}
		}
	}
	// ParseRevision
	if sh.Shard == 0 {
		for _, r := range c10Revs {
			for l := 0; l <= 12; l++ {
				b := make([]byte, l)
				if l >= 8 {
					binary.BigEndian.PutUint64(b, r)
				}
				rev, tomb, err := coder.ParseRevision(b)
				n++
				switch l {
				case 8, 9:
					if err != nil || rev != r || tomb != (l == 9) {
						fail("parse-revision", "ParseRevision(%d bytes of %d) = (%d,%v,%v)", l, r, rev, tomb, err)
					}
				default:
					if err == nil {
						fail("parse-revision", "ParseRevision accepted %d bytes", l)
					}
				}
			}
		}
	}
	res.Execs = n
	res.States = len(all)/sh.Of + 1
	res.Steps = n
	res.Outcomes[fmt.Sprintf("shard-ok-%v", len(res.Viols) == 0)]++
	if sh.Shard == 0 {
		res.Samples = []string{
			fmt.Sprintf("encode(%x,%d)=%x", all[len(all)/2].k, all[len(all)/2].r, all[len(all)/2].enc),
			fmt.Sprintf("PrefixEnd(%x)=%x", tri[len(tri)-1], backend.PrefixEnd(tri[len(tri)-1])),
		}
	}
	return res
}

func allFF(b []byte) bool {
	for _, c := range b {
		if c != 0xff {
			return false
		}
	}
	return true
}

func sign(x int) int {
	switch {
	case x < 0:
		return -1
	case x > 0:
		return 1
	}
	return 0
}

func init() {
	mc.Register(&mc.Property{
		ID:     "C10",
		Level:  "exploration",
		Rule:   "bounded-exhaustive input enumeration: all byte strings of length 0..L over {0x25,'/','0','W','a',0xfe,0xff} (thorough: plus 0x80,0x8b,0xfb, i.e. every byte of the internal magic prefix) x 9 revisions (0,1,2,0xff,0x100,2^32,2^63,2^64-2,2^64-1): round trip for every (key,revision), byte order = (key,revision) order for ALL ordered pairs, range bounds for ALL (start,end,key) triples x 3 revisions, prefix bounds for all (prefix,key) pairs, the intervals a compaction scans (production getCompactBorders) for 8 node configurations (prefix with and without trailing slash, the root prefix, one or two skipped prefixes inside it) against every (key,revision) record, ParseRevision for lengths 0..12; a case is one evaluated (pair|triple) and all are distinct",
		Assume: []string{"keys over bytes greater than '$' only (the documented alphabet); bytes between the sampled ones behave like their neighbours (the functions only compare and copy bytes); the bytes of the coder's own magic prefix are in the alphabet"},
		Exec:   c10Exec,
		Drive: func(c *mc.Ctx) {
			maxLen, triLen := 4, 3
			wide := c.Tier == "thorough"
			if wide {
				c10Alphabet = c10AlphabetWide
			}
			of := 64
			for i := 0; i < of; i++ {
				e, _ := json.Marshal(c10Shard{i, of, maxLen, triLen, wide})
				c.Pool.Submit(mc.Job{Prop: "C10", Kind: "enum", Tier: c.Tier, Extra: e}, func(j mc.Job, r *mc.JobResult) { c.Agg.Add(j, r) })
			}
			c.Pool.Wait()
			nk := len(c10Keys(maxLen))
			c.Cov["keys"] = nk
			c.Cov["encoded_records"] = nk * len(c10Revs)
			c.Cov["distinct_nontrivial"] = c.Agg.Execs
			c.Cov["max_key_length"] = maxLen
		},
	})
}
