package props

import (
	"fmt"
	"os"
	"regexp"
	"sort"
	"strings"
	"time"

	proto "github.com/kubewharf/kubebrain-client/api/v2rpc"

	"github.com/kubewharf/kubebrain/pkg/backend"
	"github.com/kubewharf/kubebrain/pkg/backend/scanner"
	"github.com/kubewharf/kubebrain/pkg/storage"
	"github.com/kubewharf/kubebrain/zz_verif/h/hx"
	"github.com/kubewharf/kubebrain/zz_verif/h/mc"
	"github.com/kubewharf/kubebrain/zz_verif/rt/vrt"
)

// C19 — concurrent requests are free of data races.  The same exhaustive schedule enumeration, on a
// binary built with the race detector: the scheduler serialises the threads with a baton the
// detector cannot see (plain word, norace functions, GOMAXPROCS=1), the shims perform the real
// lock / atomic / channel operation after each scheduling point, so every explored execution is
// judged by ThreadSanitizer on the program's own happens-before edges only.

var raceLogOff int64

func raceLogPath() string {
	// GORACE=log_path=<p> makes the runtime write to <p>.<pid>
	for _, kv := range strings.Fields(os.Getenv("GORACE")) {
		if strings.HasPrefix(kv, "log_path=") {
			return fmt.Sprintf("%s.%d", strings.TrimPrefix(kv, "log_path="), os.Getpid())
		}
	}
	return ""
}

var reFrame = regexp.MustCompile(`^\s+(\S+)\(.*\)$|^\s+(\S+)\(\)$`)

type raceReport struct {
	sites [2]string // innermost kubebrain frame of each access
	tops  [2]string
	text  string
}

// newRaceReports parses the reports appended to the race log since the last call.
func newRaceReports() []raceReport {
	p := raceLogPath()
	if p == "" {
		return nil
	}
	b, err := os.ReadFile(p)
	if err != nil || int64(len(b)) <= raceLogOff {
		return nil
	}
	text := string(b[raceLogOff:])
	raceLogOff = int64(len(b))
	var out []raceReport
	for _, blk := range strings.Split(text, "==================") {
		if !strings.Contains(blk, "WARNING: DATA RACE") {
			continue
		}
		// the two access stacks are the first two paragraphs that start with Read/Write/Previous
		var stacks [][]string
		var cur []string
		in := false
		for _, ln := range strings.Split(blk, "\n") {
			t := strings.TrimSpace(ln)
			switch {
			case strings.HasPrefix(t, "Read at") || strings.HasPrefix(t, "Write at") || strings.HasPrefix(t, "Previous read at") || strings.HasPrefix(t, "Previous write at") || strings.HasPrefix(t, "Atomic") || strings.HasPrefix(t, "Previous atomic"):
				if in {
					stacks = append(stacks, cur)
				}
				cur, in = nil, true
			case strings.HasPrefix(t, "Goroutine ") || t == "":
				if in {
					stacks = append(stacks, cur)
					in = false
				}
			case in && !strings.HasPrefix(t, "/") && strings.Contains(t, "("):
				cur = append(cur, t[:strings.LastIndex(t, "(")])
			}
		}
		if in {
			stacks = append(stacks, cur)
		}
		if len(stacks) < 2 {
			continue
		}
		r := raceReport{text: blk}
		ok := true
		for i := 0; i < 2; i++ {
			site := ""
			for _, f := range stacks[i] {
				if strings.Contains(f, "kubebrain/zz_verif/h/") || strings.Contains(f, "kubebrain/zz_verif/rt/vrt.") || strings.Contains(f, ".Verif") {
					break // the access is made by the harness, a verification hook or the scheduler itself
				}
				if strings.Contains(f, "github.com/kubewharf/kubebrain/pkg/") {
					site = f[strings.Index(f, "kubebrain/pkg/")+len("kubebrain/pkg/"):]
					break
				}
			}
			if len(stacks[i]) > 0 {
				r.tops[i] = stacks[i][0]
			}
			if site == "" || strings.Contains(r.tops[i], "zz_verif") {
				ok = false
			}
			r.sites[i] = site
		}
		if ok {
			out = append(out, r)
		}
	}
	return out
}

// raceScenario wraps a scenario of another property: its own oracle is ignored, the race detector judges.
func raceScenario(name string, sc *mc.Scenario) *mc.Scenario {
	return &mc.Scenario{Name: "C19/" + name, OncePerProcess: true, Body: sc.Body, Post: func(x *mc.X, r *vrt.Result) {
		x.Viols = nil
		if r.Panic != "" {
			x.Fail("C19|panic", "%s", r.Panic)
		}
		if r.Deadlock {
			x.Fail("C19|deadlock", "%v", r.Blocked)
		}
		for _, rep := range newRaceReports() {
			s := []string{rep.sites[0], rep.sites[1]}
			sort.Strings(s)
			x.Fail("C19|data-race|"+s[0]+" <-> "+s[1], "%s", strings.TrimSpace(rep.text))
		}
	}}
}

func c19Scenarios(tier string) []*mc.Scenario {
	var out []*mc.Scenario
	add := func(n string, sc *mc.Scenario) { out = append(out, raceScenario(n, sc)) }
	add("two-writers-one-key", writeScenario(writeCfg{hx.Mem, "live", [][]reqKind{{rUpdOK}, {rDel0}}, "C19"}, nil))
	add("creators-after-delete", writeScenario(writeCfg{hx.Mem, "deleted", [][]reqKind{{rCreate}, {rCreate}}, "C19"}, nil))
	add("writer-and-reader", c02Scenario(c02Cfg{w: writeCfg{hx.Mem, "live", [][]reqKind{{rUpdOK}}, "C19"}, reader: "cur"}))
	add("writers-distinct-keys", c02Scenario(c02Cfg{w: writeCfg{hx.Mem, "none", [][]reqKind{{rCreate}}, "C19"}, other: []string{"/r/b"}}))
	add("watcher-stalled-consumer", c05Scenario(c05Cfg{3, 2, "oldest", "stalled", [][]wop{{wCreateX, wUpdateX, wDeleteX}}, 1, false}))
	add("watcher-eager-consumer", c05Scenario(c05Cfg{3, 1, "zero", "eager", [][]wop{{wCreateX, wUpdateX}}, 2, false}))
	if tier == "thorough" {
		add("compactor-writer-reader", c07SchedScenario(c07Sched{hx.Mem, [][]reqKind{{rUpdOK}}, false, true}))
	} else {
		add("compactor-writer", c07SchedScenario(c07Sched{hx.Mem, [][]reqKind{{rDelOK}}, false, false}))
	}
	add("list-then-watch", c06Scenario(c06Cfg{hx.Mem, [][]wop{{wCreateX, wDeleteP}}, false, false}))
	add("two-compactions", &mc.Scenario{Body: func(x *mc.X) {
		w := newWorld(hx.Mem, 16)
		defer w.close()
		w.buildInit("deleted", sharedKey)
		vrt.BeginExplore()
		var ths []*vrt.Thread
		for i := 0; i < 2; i++ {
			ths = append(ths, vrt.Go(func() { w.b.Compact(bg, 0) }))
		}
		for _, t := range ths {
			vrt.Join(t)
		}
		vrt.Quiesce()
		w.clean = true
	}})
	// the scanner runs one worker per partition: a List / Count / streamed range over two partitions,
	// against a writer on a key next to the border
	partitioned := func(read string) *mc.Scenario {
		return &mc.Scenario{Body: func(x *mc.X) {
			scanner.VerifSetRangeStreamBatch(2)
			w := newWorld(hx.Mem, 16)
			defer w.close()
			for _, k := range []string{"/r/a", "/r/b"} {
				w.do(&clientOp{Key: k, Kind: rCreate, Val: "v"})
				vrt.Quiesce()
			}
			b1 := hx.Coder.EncodeObjectKey([]byte("/r/b"), 0)
			w.kv.Partitions = func(start, end []byte) []storage.Partition {
				return []storage.Partition{{Start: start, End: b1}, {Start: b1, End: end}}
			}
			vrt.BeginExplore()
			t1 := vrt.Go(func() { w.do(&clientOp{Key: "/r/b", Kind: rDel0}) })
			t2 := vrt.Go(func() {
				switch read {
				case "list":
					w.b.List(bg, &proto.RangeRequest{Key: []byte("/r/"), End: []byte("/r0")})
				case "count":
					w.b.Count(bg, &proto.CountRequest{Key: []byte("/r/"), End: []byte("/r0")})
				default:
					ch, err := w.b.ListByStream(bg, []byte("/r/"), []byte("/r0"), 0)
					if err != nil {
						return
					}
					for {
						vrt.Recv(ch)
						_, ok := <-ch
						vrt.Recvd()
						if !ok {
							return
						}
					}
				}
			})
			vrt.Join(t1)
			vrt.Join(t2)
			vrt.Quiesce()
			w.kv.Partitions = nil
			w.clean = true
		}}
	}
	add("partitioned-list-and-writer", partitioned("list"))
	add("partitioned-stream-and-writer", partitioned("stream"))
	if tier == "thorough" {
		add("partitioned-count-and-writer", partitioned("count"))
	}
	add("follower-readers", c18SyncScenario(2, 1))
	add("retry-loop-and-writer", &mc.Scenario{Body: func(x *mc.X) {
		backend.VerifSetIntervals(5*time.Second, time.Second)
		w := newWorld(hx.Mem, 16)
		defer w.close()
		hit := false
		w.kv.CommitFault = func(n int, b *hx.BatchRec) hx.FaultKind {
			if !hit && b.Thread != "0.2" {
				hit = true
				return hx.UncertainApplied
			}
			return hx.NoFault
		}
		w.do(&clientOp{Key: "/r/a", Kind: rCreate, Val: "u"})
		vrt.Quiesce()
		vrt.BeginExplore()
		t1 := vrt.Go(func() {
			w.do(&clientOp{Key: "/r/b", Kind: rCreate, Val: "v"})
			w.b.Compact(bg, 0)
		})
		t2 := vrt.Go(func() { vrt.Advance(7 * time.Second) })
		vrt.Join(t1)
		vrt.Join(t2)
		vrt.Quiesce()
		w.clean = true
	}})
	return out
}

func init() {
	mc.Register(&mc.Property{
		ID:        "C19",
		Level:     "model_checking",
		Rule:      "every schedule (preemption-bounded DFS with happens-before state cache) of 13 concurrent workloads on the real backend over the in-memory engine - two writers on one key, creators after a delete, writer + point/range reader, writers on distinct keys, watcher with stalled and eager consumer, compactor + writer + reader, list-then-watch, two concurrent compactions, List / streamed range (thorough: Count) over two partitions (one scanner worker each) against a writer, two follower readers sharing the revision fetch, the unknown-outcome retry loop against a writer and a compaction - executed on a binary built with -race; the per-execution oracle is the Go race detector, which sees only the program's own synchronisation (the scheduler's baton is invisible to it); a report counts when both accesses lie in the node's own code or the in-process engine below it",
		Assume:    []string{"GOMAXPROCS=1 (the baton is a plain word)", "ThreadSanitizer reports each pair of access stacks once per process and keeps a bounded access history: it can miss a race, it cannot invent one", "scheduling points at sync/atomic/channel operations only: an unsynchronised access is not itself a scheduling point, the detector finds it from the happens-before relation of the explored execution"},
		Scenarios: c19Scenarios,
		Drive: func(c *mc.Ctx) {
			if !vrt.RaceBuild {
				fmt.Fprintln(os.Stderr, "C19 needs the race build (./run C19 ...)")
				os.Exit(2)
			}
			mc.DriveSchedules(c, func(i int, sc *mc.Scenario) mc.SchedPlan {
				p := mc.SchedPlan{Class: strings.TrimPrefix(sc.Name, "C19/"), Bounds: []int{0, 1}, Shard: true}
				if c.Tier == "thorough" {
					p.Bounds = []int{0, 1, 2}
				}
				heavy := strings.Contains(sc.Name, "partitioned") || strings.Contains(sc.Name, "compactor") || strings.Contains(sc.Name, "list-then") || strings.Contains(sc.Name, "stalled") || strings.Contains(sc.Name, "retry-loop") || strings.Contains(sc.Name, "eager")
				if heavy && c.Tier == "quick" {
					p.Bounds = []int{0}
				}
				if heavy && c.Tier == "thorough" {
					p.Bounds = []int{0, 1}
				}
				return p
			})
		},
	})
}
