package props

import (
	"context"
	"fmt"
	"strings"
	"time"

	apierrors "k8s.io/apimachinery/pkg/api/errors"
	"k8s.io/client-go/tools/leaderelection/resourcelock"

	proto "github.com/kubewharf/kubebrain-client/api/v2rpc"

	"github.com/kubewharf/kubebrain/pkg/backend"
	"github.com/kubewharf/kubebrain/pkg/backend/tso"
	"github.com/kubewharf/kubebrain/pkg/server/service/leader"
	"github.com/kubewharf/kubebrain/pkg/storage"
	"github.com/kubewharf/kubebrain/zz_verif/h/hx"
	"github.com/kubewharf/kubebrain/zz_verif/h/mc"
	"github.com/kubewharf/kubebrain/zz_verif/rt/vrt"
)

// C15 — revisions keep increasing across leader changes and restarts.

var c15Engines = []string{hx.Mem, hx.Badger, hx.TiKV}
var c15Keys = []string{"/r/a", "/r/b"}

// alphabet: 0..5 create/upd/del x 2 keys, 6 one failed write, 7 ten failed writes, 8 hundred failed writes, 9 lock renewal
var c15OpNames = []string{"create(a)", "update(a)", "delete(a)", "create(b)", "update(b)", "delete(b)", "1-failed-write", "10-failed-writes", "100-failed-writes", "renew-lock"}

type onStarted interface {
	VerifOnStartedLeading(ctx context.Context)
}

// newCandidate builds a node over the store: its backend and its (long-lived) resource lock.
func newCandidate(kv storage.KvStorage, identity string) (backend.Backend, resourcelock.Interface) {
	b := backend.NewBackend(kv, backend.Config{Prefix: "/r", Identity: identity, WatchCacheSize: 16}, hx.NopMetrics{})
	return b, b.GetResourceLock()
}

// takeOver acquires (or takes over) the lock through the real resource lock, the way client-go's
// elector does (get, create-or-update, get), and then runs the production OnStartedLeading code.
func takeOver(b backend.Backend, rl resourcelock.Interface, identity string) error {
	rec := resourcelock.LeaderElectionRecord{HolderIdentity: identity, LeaseDurationSeconds: 8}
	_, err := rl.Get()
	switch {
	case err != nil && apierrors.IsNotFound(err):
		err = rl.Create(rec)
	case err == nil:
		err = rl.Update(rec)
	}
	if err != nil {
		return fmt.Errorf("lock: %v", err)
	}
	if _, err := rl.Get(); err != nil { // client-go reads the record it observes before acting on it
		return fmt.Errorf("lock get: %v", err)
	}
	le := leader.NewLeaderElection(b, hx.NopMetrics{}, func(context.Context) {}, func() {})
	le.(onStarted).VerifOnStartedLeading(context.Background())
	vrt.Quiesce()
	return nil
}

func becomeLeader(kv storage.KvStorage, identity string) (backend.Backend, resourcelock.Interface, error) {
	b, rl := newCandidate(kv, identity)
	return b, rl, takeOver(b, rl, identity)
}

// c15TsoOpNames: the alphabet of the revision-allocator search (the component every node's revisions come from).
var c15TsoOpNames = []string{"deal", "commit-oldest-outstanding", "become-leader(store unchanged)", "become-leader(another leader wrote 5 more)"}

// c15TsoRun drives the real revision allocator alone: requests deal revisions, the sequencer commits
// them in order, and at any point - also with revisions dealt and not yet committed, i.e. writes in
// flight - the node becomes leader: it is given an engine timestamp above everything in the store
// (the engine contract; the stores' own timestamps are the subject of the node-level histories).
// Every revision dealt afterwards has to exceed everything the store held at that moment.
func c15TsoRun(hist []int) *mc.SeqOut {
	out := &mc.SeqOut{}
	n := tso.NewTSO()
	n.Init(100)
	var outstanding []uint64
	stored := uint64(100) // highest revision any leader has written so far
	floor := uint64(0)    // what the store held when this node last became leader
	last := uint64(0)     // last revision this node dealt
	for i, a := range hist {
		switch a {
		case 0:
			r, err := n.Deal()
			out.Evals++
			if err != nil || r <= floor || r <= last {
				var hs []string
				for _, h := range hist[:i+1] {
					hs = append(hs, c15TsoOpNames[h])
				}
				out.Viols = append(out.Viols, mc.Violation{Sig: "C15|new-revision-not-above-stored|revision-allocator", Detail: fmt.Sprintf("allocator history [%s]: dealt revision %d (err %v); the store held revision %d when the node became leader, the node's previous revision was %d", strings.Join(hs, ", "), r, err, floor, last)})
				return out
			}
			last = r
			outstanding = append(outstanding, r)
			if r > stored {
				stored = r
			}
		case 1:
			if len(outstanding) == 0 {
				return out // not enabled: terminal
			}
			n.Commit(outstanding[0])
			outstanding = outstanding[1:]
		default:
			if a == 3 {
				stored += 5
			}
			floor = stored
			n.Commit(stored + 1) // SetCurrentRevision(engine timestamp) in OnStartedLeading
			stored++             // the timestamp itself is not handed out again
		}
	}
	out.Key = fmt.Sprint(hist)
	out.Obs = fmt.Sprintf("outstanding=%d", len(outstanding))
	return out
}

func c15Run(cfgIdx int, hist []int) *mc.SeqOut {
	if cfgIdx == 2*len(c15Engines) {
		return c15TsoRun(hist)
	}
	engine := c15Engines[cfgIdx%len(c15Engines)]
	// mode 0: the new leader is a node started after the old one stopped (restart / late joiner);
	// mode 1: the new leader is a standby that has been polling the lock during the old leader's term
	standby := cfgIdx/len(c15Engines) == 1
	out := &mc.SeqOut{}
	fail := func(sig, f string, a ...interface{}) {
		var hs []string
		for _, h := range hist {
			hs = append(hs, c15OpNames[h])
		}
		if standby {
			sig += "|standby-takes-over"
		}
		out.Viols = append(out.Viols, mc.Violation{Sig: "C15|" + sig + "|" + engine, Detail: fmt.Sprintf("old leader history [%s]: ", strings.Join(hs, ", ")) + fmt.Sprintf(f, a...)})
	}
	kv, cleanup, err := hx.NewEngine(engine) // a fresh database per history (engine timestamps matter here)
	if err != nil {
		panic(err)
	}
	defer cleanup()
	old, oldLock, err := becomeLeader(kv, "old")
	if err != nil {
		fail("old-leader-start", "%v", err)
		return out
	}
	w := &world{engine: engine, kv: hx.NewDeco(kv, false), b: old, cleanup: func() {}}
	m := newMvcc()
	var sb backend.Backend
	var sbLock resourcelock.Interface
	poll := func() bool {
		if !standby {
			return true
		}
		if _, err := sbLock.Get(); err != nil {
			fail("standby-poll", "%v", err)
			return false
		}
		// ... and it serves a follower read: it adopts the leader's read revision (what the revision syncer does)
		sb.SetCurrentRevision(old.GetCurrentRevision())
		return true
	}
	if standby {
		sb, sbLock = newCandidate(kv, "new")
		if !poll() {
			return out
		}
	}
	first := old.GetCurrentRevision()
	failedWrites := 0 // requests of the old leader that consumed a revision without committing anything
	for _, a := range hist {
		switch {
		case a < 6:
			key := c15Keys[a/3]
			kind := []reqKind{rCreate, rUpdOK, rDelOK}[a%3]
			exp := uint64(0)
			if kind != rCreate {
				exp = first
				if l, ok := m.latest(key); ok {
					exp = l.rev
				}
			}
			want := m.expectWrite(kind, key, exp)
			op := &clientOp{Key: key, Kind: kind, Exp: exp, Val: fmt.Sprintf("v%d", len(w.ops))}
			w.do(op)
			vrt.Quiesce()
			if op.Err != nil || op.OK != want {
				fail("old-leader-write", "%s on %s: ok=%v err=%v, model says %v", reqNames[kind], key, op.OK, op.Err, want)
				return out
			}
			if op.OK {
				m.apply(kind, key, op.Val, op.Hdr)
			} else {
				failedWrites++
			}
		case a < 9:
			n := []int{1, 10, 100}[a-6]
			failedWrites += n
			for i := 0; i < n; i++ {
				r, err := old.Delete(bg, &proto.DeleteRequest{Key: []byte("/r/missing")})
				if err != nil || r.Succeeded {
					fail("old-leader-failed-write", "delete of a missing key: %v %v", r, err)
					return out
				}
				if i%10 == 9 {
					// the sequencer runs beside the client; under the cooperative scheduler it has to be given the
					// chance, or 100 requests in a row overrun the (shrunk, 100 slots) result ring
					vrt.Quiesce()
				}
			}
			vrt.Quiesce()
		default:
			rec := resourcelock.LeaderElectionRecord{HolderIdentity: "old", LeaseDurationSeconds: 8, LeaderTransitions: 1}
			if _, err := oldLock.Get(); err != nil {
				fail("renew-get", "%v", err)
				return out
			}
			if err := oldLock.Update(rec); err != nil {
				fail("renew-update", "%v", err)
				return out
			}
			if !poll() { // the standby observes the renewal
				return out
			}
		}
	}
	_, oldIssued := backend.VerifPeek(old)
	// the old leader stops here; some time passes; a new node takes over the same store
	vrt.Advance(time.Millisecond)
	var nb backend.Backend
	if standby {
		nb, err = sb, takeOver(sb, sbLock, "new")
	} else {
		nb, _, err = becomeLeader(kv, "new")
	}
	if err != nil {
		fail("new-leader-start", "%v", err)
		return out
	}
	maxStored := uint64(0)
	for _, r := range hx.Decode(hx.Dump(kv)) {
		if r.Raw {
			continue
		}
		if r.Rev > maxStored {
			maxStored = r.Rev
		}
		if r.Rev == 0 && r.IdxRev > maxStored {
			maxStored = r.IdxRev
		}
	}
	w.b = nb
	start := nb.GetCurrentRevision()
	for i := 0; i < 3; i++ {
		op := &clientOp{Key: fmt.Sprintf("/r/n%d", i), Kind: rCreate, Val: "n"}
		w.do(op)
		vrt.Quiesce()
		if op.Err != nil || !op.OK {
			fail("new-leader-create", "create of a fresh key failed: ok=%v err=%v", op.OK, op.Err)
			return out
		}
		out.Evals++
		if op.Hdr <= maxStored {
			sig := "new-revision-not-above-stored"
			if failedWrites > 0 {
				// the recorded Badger finding needs revisions consumed without a commit; without any the
				// engine's commit counter cannot be behind the issued revisions
				sig += "|after-failed-writes"
			}
			fail(sig, "the new leader started at revision %d and handed out revision %d, but the store already holds revision %d (the old leader had handed out up to %d, starting from %d)", start, op.Hdr, maxStored, oldIssued, first)
			return out
		}
		m.apply(rCreate, op.Key, op.Val, op.Hdr)
	}
	// guarded writes on existing keys keep working
	for _, k := range c15Keys {
		l, ok := m.latest(k)
		if !ok || l.deleted {
			continue
		}
		op := &clientOp{Key: k, Kind: rUpdOK, Exp: l.rev, Val: "after"}
		w.do(op)
		vrt.Quiesce()
		out.Evals++
		if op.Err != nil || !op.OK {
			fail("guarded-write-rejected", "update of %s expecting its revision %d: ok=%v err=%v", k, l.rev, op.OK, op.Err)
			return out
		}
		m.apply(rUpdOK, k, "after", op.Hdr)
	}
	lst, err := nb.List(bg, &proto.RangeRequest{Key: []byte("/r/"), End: []byte("/r0")})
	out.Evals++
	want, _ := m.list("/r/", "/r0", 0, 0)
	// the election record lives under the prefix too: ignore it
	var got []*proto.KeyValue
	if err == nil {
		for _, kv := range lst.Kvs {
			if string(kv.Key) != "/r/election" {
				got = append(got, kv)
			}
		}
	}
	if err != nil || !sameKvs(got, want) {
		fail("list-incomplete", "List at the new leader's revision returns %s (err %v), the store holds %s", kvsString(got), err, mkvString(want))
	}
	out.Key = fmt.Sprint(hist)
	out.Obs = fmt.Sprintf("old-issued=%d gap=%v", oldIssued-first, start > oldIssued)
	return out
}

func init() {
	mc.Register(&mc.Property{
		ID:     "C15",
		Level:  "fault_enumeration",
		Rule:   "every history of the old leader up to depth 3 (thorough 5) over {create/update/delete on 2 keys, 1/10/100 failed writes (which consume revisions without touching the engine), lock renewal}, the old leader stopping after every history (every prefix is a history), then a new leader over the same store - either a node started afterwards, or a standby created at the start that polled the lock and served a follower read (adopting the leader's read revision) during the old leader's term, after its election and after every renewal - taking the lock over through the real resource lock (get, update, get) and running the production OnStartedLeading code; on memkv (virtual clock advanced by 1 ms), badger and tikv-mock with a fresh database per history; oracle: the first three revisions of the new leader exceed every revision in the store, guarded updates of all pre-existing live keys succeed, List equals the model; a case is distinct by its history and engine; plus every history up to depth 8 (thorough 11) of the real revision allocator alone over {deal, commit the oldest outstanding revision, become leader with an engine timestamp above the store (unchanged / after another leader wrote 5 more)} - i.e. also taking over with writes in flight - every dealt revision exceeding what the store held at the last take-over and every earlier one",
		Assume: []string{"OnStartedLeading is the production function literal, lifted by the instrumenter into a callable method (client-go's real-time elector loop is not run)", "the old leader is simply not used any more (crash = stop)"},
		Exec:   func(j *mc.Job) *mc.JobResult { return mc.SeqExec(j, c15Run) },
		Drive: func(c *mc.Ctx) {
			depth := 3
			if c.Tier == "thorough" {
				depth = 5
			}
			total := mc.SeqStats{}
			per := map[string]mc.SeqStats{}
			// the allocator search first: it is cheap, a budget cut in the node-level histories must not skip it
			tsoDepth := 8
			if c.Tier == "thorough" {
				tsoDepth = 11
			}
			st := mc.DriveSeq(c, "bfs", 2*len(c15Engines), len(c15TsoOpNames), tsoDepth)
			per["revision-allocator"] = st
			total.States += st.States
			total.Transitions += st.Transitions
			total.Evals += st.Evals
			for i := 0; i < 2*len(c15Engines); i++ {
				d := depth
				e := c15Engines[i%len(c15Engines)] + []string{"/restart", "/standby"}[i/len(c15Engines)]
				st := mc.DriveSeq(c, "bfs", i, len(c15OpNames), d)
				per[e] = st
				total.States += st.States
				total.Transitions += st.Transitions
				total.Evals += st.Evals
			}
			c.Cov["states"] = total.States
			c.Cov["transitions"] = total.Transitions
			c.Cov["oracle_evaluations"] = total.Evals
			c.Cov["per_engine"] = per
			c.Cov["distinct_nontrivial"] = total.States
		},
	})
}
