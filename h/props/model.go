package props

import (
	"fmt"
	"sort"
	"strings"
)

// mvcc is the reference model: a versioned map.  Revisions are taken from the implementation's
// answers (their ordering is C02's subject); the model decides success/failure and every read.

type mver struct {
	rev     uint64
	val     string
	deleted bool
}

type mevent struct {
	rev     uint64
	kind    string // create put delete
	key     string
	val     string // delete: previous value
	prevRev uint64 // delete: previous modification revision
}

type mvcc struct {
	keys   map[string][]mver
	events []mevent
	floor  uint64
	maxRev uint64
}

func newMvcc() *mvcc { return &mvcc{keys: map[string][]mver{}} }

func (m *mvcc) latest(k string) (mver, bool) {
	v := m.keys[k]
	if len(v) == 0 {
		return mver{}, false
	}
	return v[len(v)-1], true
}

func (m *mvcc) live(k string) bool {
	l, ok := m.latest(k)
	return ok && !l.deleted
}

// expectWrite says whether a write must succeed.
func (m *mvcc) expectWrite(kind reqKind, k string, exp uint64) bool {
	l, ok := m.latest(k)
	isLive := ok && !l.deleted
	switch {
	case kind.isCreate() || (!kind.isDelete() && exp == 0):
		return !isLive
	case exp == 0:
		return isLive
	default:
		return isLive && l.rev == exp
	}
}

// apply records a successful write at rev.
func (m *mvcc) apply(kind reqKind, k, val string, rev uint64) {
	l, had := m.latest(k)
	if kind.isDelete() {
		m.keys[k] = append(m.keys[k], mver{rev, "", true})
		m.events = append(m.events, mevent{rev, "delete", k, l.val, l.rev})
	} else {
		m.keys[k] = append(m.keys[k], mver{rev, val, false})
		ek := "put"
		if !had || l.deleted {
			ek = "create"
		}
		m.events = append(m.events, mevent{rev, ek, k, val, 0})
	}
	if rev > m.maxRev {
		m.maxRev = rev
	}
}

// at returns the version of k visible at revision r (0 = newest).
func (m *mvcc) at(k string, r uint64) (mver, bool) {
	vs := m.keys[k]
	for i := len(vs) - 1; i >= 0; i-- {
		if r == 0 || vs[i].rev <= r {
			if vs[i].deleted {
				return mver{}, false
			}
			return vs[i], true
		}
	}
	return mver{}, false
}

type mkv struct {
	key string
	val string
	rev uint64
}

// list returns the snapshot of [start,end) at r, and whether limit cut it short.
func (m *mvcc) list(start, end string, r uint64, limit int) (out []mkv, more bool) {
	var ks []string
	for k := range m.keys {
		if k >= start && k < end {
			ks = append(ks, k)
		}
	}
	sort.Strings(ks)
	for _, k := range ks {
		if v, ok := m.at(k, r); ok {
			out = append(out, mkv{k, v.val, v.rev})
		}
	}
	if limit > 0 && len(out) > limit {
		return out[:limit], true
	}
	return out, false
}

func mkvString(l []mkv) string {
	var s []string
	for _, kv := range l {
		s = append(s, fmt.Sprintf("%s=%s@%d", kv.key, kv.val, int64(kv.rev)-base))
	}
	return "[" + strings.Join(s, " ") + "]"
}

// revs returns all revisions at which something was written, ascending.
func (m *mvcc) revs() []uint64 {
	var out []uint64
	for _, e := range m.events {
		out = append(out, e.rev)
	}
	sort.Slice(out, func(i, j int) bool { return out[i] < out[j] })
	return out
}

// canon renders the model state with revisions replaced by their rank.
func (m *mvcc) canon() string {
	rank := map[uint64]int{}
	for i, r := range m.revs() {
		rank[r] = i + 1
	}
	var ks []string
	for k := range m.keys {
		ks = append(ks, k)
	}
	sort.Strings(ks)
	var b strings.Builder
	for _, k := range ks {
		b.WriteString(k + ":")
		for _, v := range m.keys[k] {
			if v.deleted {
				fmt.Fprintf(&b, "%d†,", rank[v.rev])
			} else {
				fmt.Fprintf(&b, "%d=%s,", rank[v.rev], v.val)
			}
		}
		b.WriteString(";")
	}
	fmt.Fprintf(&b, "floor=%d", rank[m.floor])
	return b.String()
}

func minInt(a, b int) int {
	if a < b {
		return a
	}
	return b
}
