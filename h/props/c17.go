package props

import (
	"fmt"
	"strings"
	"time"

	proto "github.com/kubewharf/kubebrain-client/api/v2rpc"

	"github.com/kubewharf/kubebrain/pkg/backend"
	"github.com/kubewharf/kubebrain/zz_verif/h/hx"
	"github.com/kubewharf/kubebrain/zz_verif/h/mc"
	"github.com/kubewharf/kubebrain/zz_verif/rt/vrt"
)

// C17 — expiry removes only event keys, wholly, and only after the TTL.

const c17TTL = 10 // seconds

var c17Keys = []string{"/r/events/ns/e1", "/r/pods/ns/p1", "/r/pods/events/p2", "/r/x/events/y", "/r/eventsources/ns/s"}

func isEventKey(k string) bool { return strings.HasPrefix(k, "/r/events/") }

// configurations: engine with / without native TTL
var c17Cfgs = []struct {
	name   string
	engine string
	noTTL  bool
}{{"memkv-without-native-ttl", hx.Mem, true}, {"memkv-native-ttl", hx.Mem, false}, {"tikv", hx.TiKV, false}}

// alphabet: 3 writes x 4 keys, compact, 3 clock advances
var c17Adv = []time.Duration{(c17TTL - 1) * time.Second, time.Second, (c17TTL + 1) * time.Second}

var c17NW = 3 * len(c17Keys) // number of write operations in the alphabet

func c17OpName(a int) string {
	switch {
	case a < c17NW:
		return fmt.Sprintf("%s(%s)", []string{"create", "update", "delete"}[a%3], c17Keys[a/3])
	case a == c17NW:
		return "compact"
	}
	return fmt.Sprintf("clock+%v", c17Adv[a-c17NW-1])
}

// ---- schedules: compaction-driven expiry of an Event against a client writing that Event ----
//
// The expiry decides from the revision it read; a client that updates (or deletes and re-creates) the
// Event meanwhile makes it young again.  Whatever the interleaving, afterwards the key is wholly
// there or wholly gone: reads, the stored records and a guarded write agree.

func c17SchedScenario(writer string) *mc.Scenario {
	return &mc.Scenario{Name: "C17/sched/expiry-vs-" + writer, Body: func(x *mc.X) {
		backend.VerifSetEventsTTL(c17TTL)
		defer backend.VerifSetEventsTTL(3600)
		kv, release, err := hx.AcquireEngine(hx.Mem)
		if err != nil {
			panic(err)
		}
		w := &world{engine: hx.Mem}
		w.cleanup = func() { release(!w.clean) }
		defer w.close()
		w.kv = hx.NewDeco(kv, false)
		w.kv.NoTTL = true // compaction-driven expiry
		w.b = backend.NewBackend(w.kv, backend.Config{Prefix: "/r", Identity: "n1", WatchCacheSize: 64}, hx.NopMetrics{})
		w.b.SetCurrentRevision(base)
		vrt.Quiesce()
		key, other := c17Keys[0], c17Keys[1]
		c0 := &clientOp{Key: key, Kind: rCreate, Val: "e1"}
		w.do(c0)
		vrt.Quiesce()
		p0 := &clientOp{Key: other, Kind: rCreate, Val: "p1"}
		w.do(p0)
		vrt.Quiesce()
		if !c0.OK || !p0.OK {
			panic("setup writes failed")
		}
		// a first compaction mark, then more than the TTL passes: the next compaction expires the Event
		if _, err := w.b.Compact(bg, 0); err != nil {
			panic(err)
		}
		vrt.Quiesce()
		vrt.Advance((c17TTL + 1) * time.Second)
		vrt.Quiesce()
		var ops []*clientOp
		vrt.BeginExplore()
		t1 := vrt.Go(func() {
			if _, err := w.b.Compact(bg, 0); err != nil {
				x.Fail("C17|compact-error|memkv-without-native-ttl", "%v", err)
			}
		})
		t2 := vrt.Go(func() {
			switch writer {
			case "update":
				op := &clientOp{Key: key, Kind: rUpdOK, Exp: c0.Hdr, Val: "e2"}
				ops = append(ops, op)
				w.do(op)
			default: // delete, then create again
				d := &clientOp{Key: key, Kind: rDelOK, Exp: c0.Hdr}
				ops = append(ops, d)
				w.do(d)
				c := &clientOp{Key: key, Kind: rCreate, Val: "e3"}
				ops = append(ops, c)
				w.do(c)
			}
		})
		vrt.Join(t1)
		vrt.Join(t2)
		vrt.Quiesce()
		vrt.EndExplore()
		// what the clients were told: the newest acknowledged write of the Event
		var last *clientOp
		var outs []string
		for _, op := range ops {
			if op.OK {
				last = op
			}
			outs = append(outs, fmt.Sprintf("%s:%v/%v", reqNames[op.Kind], op.OK, op.Err != nil))
		}
		g, gerr := w.b.Get(bg, &proto.GetRequest{Key: []byte(key)})
		l, lerr := w.b.List(bg, &proto.RangeRequest{Key: []byte("/r/events/"), End: []byte("/r/events0")})
		if gerr != nil || lerr != nil {
			x.Fail("C17|read-error|memkv-without-native-ttl", "Get: %v, List: %v", gerr, lerr)
			return
		}
		var listed *proto.KeyValue
		for _, kv := range l.Kvs {
			if string(kv.Key) == key {
				listed = kv
			}
		}
		nrec := 0
		for _, r := range w.dump() {
			if !r.Raw && r.Key == key {
				nrec++
			}
		}
		desc := fmt.Sprintf("client outcomes %v; point read %v, range read %v, %d records stored", outs, g.Kv, listed, nrec)
		switch {
		case (g.Kv == nil) != (listed == nil) || (g.Kv != nil && (g.Kv.Revision != listed.Revision || string(g.Kv.Value) != string(listed.Value))):
			x.Fail("C17|event-partly-removed|point-and-range-read-disagree|memkv-without-native-ttl", "%s", desc)
		case g.Kv == nil && nrec != 0 && (last == nil || last.Kind.isDelete()):
			// (a tombstone written by an acknowledged delete may legitimately remain)
			if last == nil {
				x.Fail("C17|event-partly-removed|memkv-without-native-ttl", "the Event reads absent but records of it are left: %s", desc)
			}
		case g.Kv != nil && last != nil && !last.Kind.isDelete() && !kvEq(g.Kv, last.Val, last.Hdr):
			x.Fail("C17|acknowledged-write-of-a-young-event-lost|memkv-without-native-ttl", "the newest acknowledged write is %s=%q at revision %d: %s", key, last.Val, int64(last.Hdr)-base, desc)
		case g.Kv == nil && last != nil && !last.Kind.isDelete():
			x.Fail("C17|event-removed-before-ttl|memkv-without-native-ttl", "the Event was written at revision %d just now (acknowledged) but reads absent: %s", int64(last.Hdr)-base, desc)
		}
		// the key takes a guarded write that matches what it reads as
		probe := &clientOp{Key: key, Kind: rCreate, Val: "probe"}
		if g.Kv != nil {
			probe = &clientOp{Key: key, Kind: rUpdOK, Exp: g.Kv.Revision, Val: "probe"}
		}
		w.do(probe)
		vrt.Quiesce()
		if probe.Err != nil || !probe.OK {
			x.Fail("C17|event-partly-removed|not-writable-as-it-reads|memkv-without-native-ttl", "%s on the Event (expecting %d) answered succeeded=%v err=%v although: %s", reqNames[probe.Kind], int64(probe.Exp)-base, probe.OK, probe.Err, desc)
		}
		// the plain key is untouched
		if pg, err := w.b.Get(bg, &proto.GetRequest{Key: []byte(other)}); err != nil || !kvEq(pg.Kv, "p1", p0.Hdr) {
			x.Fail("C17|non-event-key-changed|memkv-without-native-ttl", "%s reads %v (err %v)", other, pg.GetKv(), err)
		}
		x.Obs = fmt.Sprintf("%v present=%v", outs, g.Kv != nil)
		w.clean = true
	}}
}

func c17Run(cfgIdx int, hist []int) *mc.SeqOut {
	cfg := c17Cfgs[cfgIdx]
	out := &mc.SeqOut{}
	var hs []string
	for _, h := range hist {
		hs = append(hs, c17OpName(h))
	}
	fail := func(sig, f string, a ...interface{}) {
		sig = "C17|" + sig + "|" + cfg.name
		for _, v := range out.Viols {
			if v.Sig == sig {
				return
			}
		}
		out.Viols = append(out.Viols, mc.Violation{Sig: sig, Detail: fmt.Sprintf("history [%s]: ", strings.Join(hs, ", ")) + fmt.Sprintf(f, a...)})
	}
	backend.VerifSetEventsTTL(c17TTL)
	defer backend.VerifSetEventsTTL(3600)
	kv, release, err := hx.AcquireEngine(cfg.engine)
	if err != nil {
		panic(err)
	}
	w := &world{engine: cfg.engine}
	w.cleanup = func() { release(!w.clean) }
	defer w.close()
	w.kv = hx.NewDeco(kv, false)
	w.kv.NoTTL = cfg.noTTL
	w.b = backend.NewBackend(w.kv, backend.Config{Prefix: "/r", Identity: "n1", WatchCacheSize: 64}, hx.NopMetrics{})
	w.b.SetCurrentRevision(base)
	vrt.Quiesce()
	evCh, werr := w.b.Watch(bg, "/r/", 0)
	if werr != nil {
		panic(werr)
	}
	m := newMvcc()
	lastChange := map[string]int64{} // virtual time of the newest change of each key
	updated := map[string]bool{} // keys that were successfully updated at least once
	nowNs := func() int64 { return vrt.NowNanos() }
	gone := map[string]bool{}
	// check compares every key with the model, allowing an event whose newest change is older than the TTL to be wholly gone
	check := func(when string) {
		recs := w.dump()
		for _, k := range c17Keys {
			out.Evals++
			g, err := w.b.Get(bg, &proto.GetRequest{Key: []byte(k)})
			if err != nil {
				fail("get-error", "%s: Get(%s): %v", when, k, err)
				continue
			}
			l, had := m.latest(k)
			wantLive := had && !l.deleted
			// what is left of the key in the store: only records a client could still observe count - the
			// index record, or a newest remaining version that is a value (versions below a remaining
			// tombstone are garbage for the next compaction and change nothing a client can see)
			nrec := 0
			var newest *hx.Rec
			for i := range recs {
				r := &recs[i]
				if r.Raw || r.Key != k {
					continue
				}
				if r.Rev == 0 {
					nrec++
				} else if newest == nil || r.Rev > newest.Rev {
					newest = r
				}
			}
			if newest != nil && string(newest.Val) != "tombstone" {
				nrec++
			}
			age := time.Duration(nowNs() - lastChange[k])
			switch {
			case !isEventKey(k):
				// never expires
				if wantLive && !kvEq(g.Kv, l.val, l.rev) || !wantLive && g.Kv != nil {
					sig := "non-event-key-changed"
					if wantLive && g.Kv == nil && strings.Contains(k, "/events") {
						sig = "non-event-key-expired|name-resembles-events"
					}
					fail(sig, "%s: %s is not an Event record; it should read %v (live=%v) but reads %v; %d records stored, newest change %v ago", when, k, l, wantLive, g.Kv, nrec, age)
				}
			case wantLive && g.Kv == nil:
				// an event that disappeared: only allowed after the TTL, and then wholly
				if age < c17TTL*time.Second {
					fail("event-removed-before-ttl", "%s: event %s changed %v ago (TTL %ds) but reads absent", when, k, age, c17TTL)
				} else if nrec != 0 {
					fail("event-partly-removed", "%s: expired event %s reads absent but %d of its records are still stored: %s", when, k, nrec, hx.DumpString(recs, base))
				} else {
					gone[k] = true
					delete(m.keys, k) // wholly expired: the key can be created again
				}
			case wantLive:
				if !kvEq(g.Kv, l.val, l.rev) {
					fail("event-value", "%s: event %s reads %v, expected %v", when, k, g.Kv, l)
				}
			case g.Kv != nil:
				fail("deleted-event-readable", "%s: deleted event %s reads %v", when, k, g.Kv)
			}
		}
	}
	for _, a := range hist {
		switch {
		case a < c17NW:
			key := c17Keys[a/3]
			kind := []reqKind{rCreate, rUpdOK, rDelOK}[a%3]
			exp := uint64(0)
			if kind != rCreate {
				exp = base
				if l, ok := m.latest(key); ok {
					exp = l.rev
				}
			}
			// the model must know whether an expired event is gone before judging the write
			check("before " + c17OpName(a))
			if len(out.Viols) > 0 {
				return out
			}
			want := m.expectWrite(kind, key, exp)
			op := &clientOp{Key: key, Kind: kind, Exp: exp, Val: fmt.Sprintf("v%d", len(w.ops))}
			w.do(op)
			vrt.Quiesce()
			if op.Err != nil || op.OK != want {
				sig := "write-outcome"
				if isEventKey(key) {
					sig += "|event"
					// the recorded finding (an update of an Event is written without TTL) needs an earlier
					// successful update of this very key; any other wrong outcome on an Event is a different matter
					if updated[key] {
						sig += "|after-an-update-of-it"
					}
				}
				fail(sig, "%s: succeeded=%v err=%v, the model says %v (versions %v)", c17OpName(a), op.OK, op.Err, want, m.keys[key])
				return out
			}
			if op.OK {
				m.apply(kind, key, op.Val, op.Hdr)
				lastChange[key] = nowNs()
				if kind == rUpdOK {
					updated[key] = true
				}
			}
		case a == c17NW:
			if _, err := w.b.Compact(bg, 0); err != nil {
				fail("compact-error", "%v", err)
			}
			vrt.Quiesce()
		default:
			vrt.Advance(c17Adv[a-c17NW-1])
			vrt.Quiesce()
		}
		check("after " + c17OpName(a))
		if len(out.Viols) > 0 {
			return out
		}
	}
	// the watcher saw the clients' events only
	var evs []string
	for {
		n, _, _ := vrt.ChanLen(evCh)
		if n == 0 {
			break
		}
		for _, e := range <-evCh {
			evs = append(evs, fmt.Sprintf("%s@%d", e.Kv.Key, int64(e.Revision)-base))
		}
	}
	var want []string
	for _, r := range w.ops {
		if r.OK {
			want = append(want, fmt.Sprintf("%s@%d", r.Key, int64(r.Hdr)-base))
		}
	}
	if strings.Join(evs, " ") != strings.Join(want, " ") {
		fail("watch-events", "the watcher received [%s], the clients' successful writes were [%s]", strings.Join(evs, " "), strings.Join(want, " "))
	}
	out.Key = fmt.Sprint(hist)
	out.Obs = fmt.Sprintf("expired=%d", len(gone))
	w.clean = true
	return out
}

func init() {
	mc.Register(&mc.Property{
		ID:     "C17",
		Level:  "model_checking",
		Rule:   "every history up to depth 4 (thorough 5) over {create, update, delete on an Event key, a plain key and three look-alike keys (an 'events' segment deeper in the path, a sibling directory whose name begins with 'events'); compaction; the clock advancing by TTL-1s, 1s, TTL+1s} on memkv without native TTL (compaction-driven expiry), memkv with native TTL (timers on the virtual clock) and (thorough) tikv-mock; after every step every key is compared with the versioned-map model: non-Event keys must never change, an Event may read absent only if its newest change is at least TTL old and then no record of it may be left and it must be creatable again; the watcher must see the clients' writes only; plus every schedule (preemption-bounded) of the compaction that expires an old Event against a client updating it (or deleting and re-creating it): afterwards point read, range read, stored records and a guarded write agree, an acknowledged young write is not lost, the plain key is untouched",
		Assume: []string{"TTL set to 10 s through the injected setter; virtual clock", "Event keys are the keys under <prefix>/events/ (the property's definition)"},
		Exec:   func(j *mc.Job) *mc.JobResult { return mc.SeqExec(j, c17Run) },
		Scenarios: func(tier string) []*mc.Scenario {
			return []*mc.Scenario{c17SchedScenario("update"), c17SchedScenario("delete-create")}
		},
		Drive: func(c *mc.Ctx) {
			full := c.Deadline
			c.Deadline = c.Start.Add(full.Sub(c.Start) / 4)
			mc.DriveSchedules(c, func(i int, sc *mc.Scenario) mc.SchedPlan {
				p := mc.SchedPlan{Class: "expiry-vs-writer", Bounds: []int{0, 1}, Shard: true}
				if c.Tier == "thorough" {
					p.Bounds = []int{0, 1, 2}
				}
				return p
			})
			c.Deadline = full
			depth := 4
			cfgs := []int{0, 1}
			if c.Tier == "thorough" {
				depth = 5
				cfgs = []int{0, 1, 2}
			}
			total := mc.SeqStats{}
			per := map[string]mc.SeqStats{}
			for _, i := range cfgs {
				d := depth
				if i == 2 {
					d = 3
				}
				st := mc.DriveSeq(c, "bfs", i, c17NW+1+len(c17Adv), d)
				per[c17Cfgs[i].name] = st
				total.States += st.States
				total.Transitions += st.Transitions
				total.Evals += st.Evals
			}
			c.Cov["states"] = total.States
			c.Cov["transitions"] = total.Transitions
			c.Cov["oracle_evaluations"] = total.Evals
			c.Cov["per_configuration"] = per
		},
	})
}
