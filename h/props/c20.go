package props

import (
	"context"
	"encoding/json"
	"fmt"
	"go/ast"
	"go/parser"
	"go/token"
	"math"
	"os"
	"path/filepath"
	"sort"
	"strconv"
	"strings"
	"time"

	pb "go.etcd.io/etcd/api/v3/etcdserverpb"

	proto "github.com/kubewharf/kubebrain-client/api/v2rpc"

	"github.com/kubewharf/kubebrain/pkg/backend"
	"github.com/kubewharf/kubebrain/pkg/metrics"
	pmetrics "github.com/kubewharf/kubebrain/pkg/metrics/prometheus"
	"github.com/kubewharf/kubebrain/pkg/server/brain"
	"github.com/kubewharf/kubebrain/pkg/server/etcd"
	"github.com/kubewharf/kubebrain/pkg/storage/memkv"
	smetrics "github.com/kubewharf/kubebrain/pkg/storage/metrics"
	"github.com/kubewharf/kubebrain/zz_verif/h/hx"
	"github.com/kubewharf/kubebrain/zz_verif/h/mc"
	"github.com/kubewharf/kubebrain/zz_verif/rt/vrt"
)

// C20 — no request can crash or wedge a node, with production metrics enabled.

type node20 struct {
	b  backend.Backend
	es *etcd.RPCServer
	bs *brain.Server
	m  metrics.Metrics
}

func newNode20() *node20 {
	pmetrics.VerifResetRegistry()
	m := pmetrics.NewMetrics()
	kv := smetrics.NewKvStorage(memkv.NewKvStorage(), m)
	b := backend.NewBackend(kv, backend.Config{Prefix: "/r", Identity: "n1", WatchCacheSize: 16, EnableEtcdCompatibility: true}, m)
	b.SetCurrentRevision(base)
	vrt.Quiesce()
	peers := &hx.Peers{Leader: true, LeaderAddr: "127.0.0.1:1"}
	n := &node20{b: b, m: m, es: etcd.New(b, m, peers), bs: brain.New(b, m, peers)}
	// one existing key
	if r, err := b.Create(bg, &proto.CreateRequest{Key: []byte("/r/a"), Value: []byte("v")}); err != nil || !r.Succeeded {
		panic("setup")
	}
	vrt.Quiesce()
	return n
}

// a request is a closure over a node; the name identifies its content
type req20 struct {
	name string
	run  func(n *node20) error
}

var keys20 = [][]byte{nil, []byte(""), []byte("a"), []byte("/"), []byte("/r/a"), []byte("/r/\xff\xfe"), []byte("\x00"), []byte("/r/" + strings.Repeat("k", 1024))}
var vals20 = [][]byte{nil, []byte(""), []byte("v"), []byte("tombstone")}
var revs20 = []int64{0, 1, base + 1, base + 2, -1, math.MinInt64, math.MaxInt64, math.MaxInt64 - 1, 1 << 62}

// limits: exact boundaries AND values just inside them (MaxInt64 itself wraps to "unlimited" when the
// backend adds one; a huge limit that does not wrap reaches allocation and slice arithmetic)
var limits20 = []int64{-1, 0, 1, math.MaxInt64, math.MaxInt64 - 1, 1 << 62, 1 << 50, 1 << 31}

func kname(b []byte) string {
	if b == nil {
		return "nil"
	}
	if len(b) > 12 {
		return fmt.Sprintf("%q…(%d)", b[:8], len(b))
	}
	return fmt.Sprintf("%q", b)
}

func watch20(n *node20, key []byte, rangeEnd []byte, start int64) error {
	ws := hx.NewWatchStream()
	var err error
	done := vrt.Go(func() { err = n.es.Watch(ws) })
	ws.Push(&pb.WatchRequest{RequestUnion: &pb.WatchRequest_CreateRequest{CreateRequest: &pb.WatchCreateRequest{Key: key, RangeEnd: rangeEnd, StartRevision: start}}})
	vrt.Quiesce()
	ws.Push(&pb.WatchRequest{}) // a request with no union member
	ws.Push(&pb.WatchRequest{RequestUnion: &pb.WatchRequest_CancelRequest{CancelRequest: &pb.WatchCancelRequest{WatchId: 12345}}})
	vrt.Quiesce()
	ws.Cancel()
	ws.CloseSend()
	vrt.Join(done)
	vrt.Quiesce()
	_ = err
	return nil
}

func requests20(reduced bool) []req20 {
	var out []req20
	add := func(name string, f func(n *node20) error) { out = append(out, req20{name, f}) }
	ctx := context.Background()
	keys, vals, revs, limits := keys20, vals20, revs20, limits20
	if reduced {
		keys = [][]byte{nil, []byte("/r/a"), []byte("/r/\xff\xfe")}
		vals = [][]byte{nil, []byte("v")}
		revs = []int64{0, 1, base + 1, -1} // 1: a revision below an accepted compaction (pairs: compact high, then low)
		limits = []int64{0, 1}
	}
	for _, k := range keys {
		k := k
		ends := [][]byte{nil, []byte(""), []byte("\x00"), k, append(append([]byte{}, k...), 'z')}
		if len(k) > 0 {
			ends = append(ends, k[:len(k)-1])
		}
		if reduced {
			ends = [][]byte{nil, append(append([]byte{}, k...), 'z')}
		}
		for _, e := range ends {
			e := e
			for _, r := range revs {
				r := r
				for _, l := range limits {
					l := l
					add(fmt.Sprintf("etcd.Range(key=%s,end=%s,rev=%d,limit=%d)", kname(k), kname(e), r, l), func(n *node20) error {
						_, err := n.es.Range(ctx, &pb.RangeRequest{Key: k, RangeEnd: e, Revision: r, Limit: l})
						return err
					})
					add(fmt.Sprintf("brain.Range(key=%s,end=%s,rev=%d,limit=%d)", kname(k), kname(e), r, l), func(n *node20) error {
						_, err := n.bs.Range(ctx, &proto.RangeRequest{Key: k, End: e, Revision: uint64(r), Limit: l})
						return err
					})
				}
			}
			add(fmt.Sprintf("etcd.Range.count(key=%s,end=%s)", kname(k), kname(e)), func(n *node20) error {
				_, err := n.es.Range(ctx, &pb.RangeRequest{Key: k, RangeEnd: e, CountOnly: true})
				return err
			})
			add(fmt.Sprintf("etcd.Range.partitions(key=%s,end=%s)", kname(k), kname(e)), func(n *node20) error {
				_, err := n.es.Range(ctx, &pb.RangeRequest{Key: k, RangeEnd: e, Revision: etcd.GetPartitionMagic})
				return err
			})
			add(fmt.Sprintf("brain.Count(key=%s,end=%s)", kname(k), kname(e)), func(n *node20) error {
				_, err := n.bs.Count(ctx, &proto.CountRequest{Key: k, End: e})
				return err
			})
			add(fmt.Sprintf("brain.ListPartition(key=%s,end=%s)", kname(k), kname(e)), func(n *node20) error {
				_, err := n.bs.ListPartition(ctx, &proto.ListPartitionRequest{Key: k, End: e})
				return err
			})
			add(fmt.Sprintf("brain.RangeStream(key=%s,end=%s)", kname(k), kname(e)), func(n *node20) error {
				return n.bs.RangeStream(&proto.RangeRequest{Key: k, End: e}, &hx.BrainRangeStream{Ctx: ctx})
			})
		}
		for _, v := range vals {
			v := v
			add(fmt.Sprintf("etcd.Txn.create(key=%s,val=%s)", kname(k), kname(v)), func(n *node20) error {
				_, err := n.es.Txn(ctx, &pb.TxnRequest{Compare: []*pb.Compare{{Target: pb.Compare_MOD, Result: pb.Compare_EQUAL, Key: k, TargetUnion: &pb.Compare_ModRevision{}}},
					Success: []*pb.RequestOp{{Request: &pb.RequestOp_RequestPut{RequestPut: &pb.PutRequest{Key: k, Value: v}}}}})
				return err
			})
			add(fmt.Sprintf("brain.Create(key=%s,val=%s)", kname(k), kname(v)), func(n *node20) error {
				_, err := n.bs.Create(ctx, &proto.CreateRequest{Key: k, Value: v})
				return err
			})
			for _, r := range revs {
				r := r
				add(fmt.Sprintf("etcd.Txn.update(key=%s,val=%s,rev=%d)", kname(k), kname(v), r), func(n *node20) error {
					_, err := n.es.Txn(ctx, &pb.TxnRequest{Compare: []*pb.Compare{{Target: pb.Compare_MOD, Result: pb.Compare_EQUAL, Key: k, TargetUnion: &pb.Compare_ModRevision{ModRevision: r}}},
						Success: []*pb.RequestOp{{Request: &pb.RequestOp_RequestPut{RequestPut: &pb.PutRequest{Key: k, Value: v}}}},
						Failure: []*pb.RequestOp{{Request: &pb.RequestOp_RequestRange{RequestRange: &pb.RangeRequest{Key: k}}}}})
					return err
				})
				add(fmt.Sprintf("brain.Update(key=%s,val=%s,rev=%d)", kname(k), kname(v), r), func(n *node20) error {
					_, err := n.bs.Update(ctx, &proto.UpdateRequest{Kv: &proto.KeyValue{Key: k, Value: v, Revision: uint64(r)}})
					return err
				})
			}
		}
		for _, r := range revs {
			r := r
			add(fmt.Sprintf("etcd.Txn.delete(key=%s,rev=%d)", kname(k), r), func(n *node20) error {
				_, err := n.es.Txn(ctx, &pb.TxnRequest{Compare: []*pb.Compare{{Target: pb.Compare_MOD, Result: pb.Compare_EQUAL, Key: k, TargetUnion: &pb.Compare_ModRevision{ModRevision: r}}},
					Success: []*pb.RequestOp{{Request: &pb.RequestOp_RequestDeleteRange{RequestDeleteRange: &pb.DeleteRangeRequest{Key: k}}}},
					Failure: []*pb.RequestOp{{Request: &pb.RequestOp_RequestRange{RequestRange: &pb.RangeRequest{Key: k}}}}})
				return err
			})
			add(fmt.Sprintf("brain.Delete(key=%s,rev=%d)", kname(k), r), func(n *node20) error {
				_, err := n.bs.Delete(ctx, &proto.DeleteRequest{Key: k, Revision: uint64(r)})
				return err
			})
			add(fmt.Sprintf("brain.Get(key=%s,rev=%d)", kname(k), r), func(n *node20) error {
				_, err := n.bs.Get(ctx, &proto.GetRequest{Key: k, Revision: uint64(r)})
				return err
			})
			add(fmt.Sprintf("etcd.Watch(key=%s,start=%d)", kname(k), r), func(n *node20) error { return watch20(n, k, nil, r) })
			add(fmt.Sprintf("brain.Watch(key=%s,rev=%d)", kname(k), r), func(n *node20) error {
				wctx, cancel := context.WithCancel(ctx)
				var err error
				done := vrt.Go(func() {
					err = n.bs.Watch(&proto.WatchRequest{Key: k, Revision: uint64(r)}, &hx.BrainWatchStream{Ctx: wctx})
				})
				vrt.Quiesce()
				cancel()
				vrt.Join(done)
				vrt.Quiesce()
				return err
			})
		}
		add(fmt.Sprintf("etcd.Txn.delete-unguarded(key=%s)", kname(k)), func(n *node20) error {
			_, err := n.es.Txn(ctx, txnDeleteUnguarded(string(k)))
			return err
		})
	}
	for _, r := range revs {
		r := r
		add(fmt.Sprintf("brain.Compact(rev=%d)", r), func(n *node20) error {
			_, err := n.bs.Compact(ctx, &proto.CompactRequest{Revision: uint64(r)})
			return err
		})
		add(fmt.Sprintf("etcd.Compact(rev=%d)", r), func(n *node20) error {
			_, err := n.es.Compact(ctx, &pb.CompactionRequest{Revision: r})
			return err
		})
	}
	// missing fields / unset oneofs / unsupported shapes
	add("brain.Update(kv=nil)", func(n *node20) error { _, err := n.bs.Update(ctx, &proto.UpdateRequest{}); return err })
	add("etcd.Txn(empty)", func(n *node20) error { _, err := n.es.Txn(ctx, &pb.TxnRequest{}); return err })
	add("etcd.Txn(op-without-request)", func(n *node20) error {
		_, err := n.es.Txn(ctx, &pb.TxnRequest{Compare: []*pb.Compare{{}}, Success: []*pb.RequestOp{{}}, Failure: []*pb.RequestOp{{}}})
		return err
	})
	add("etcd.Txn(compare-without-target)", func(n *node20) error {
		_, err := n.es.Txn(ctx, &pb.TxnRequest{Compare: []*pb.Compare{{Key: []byte("/r/a")}}, Success: []*pb.RequestOp{opPut("/r/a", "x")}, Failure: []*pb.RequestOp{opRange("/r/a")}})
		return err
	})
	add("etcd.Txn(compact-shape)", func(n *node20) error {
		_, err := n.es.Txn(ctx, &pb.TxnRequest{Compare: []*pb.Compare{{Target: pb.Compare_VERSION, Result: pb.Compare_EQUAL, Key: []byte("compact_rev_key"), TargetUnion: &pb.Compare_Version{}}},
			Success: []*pb.RequestOp{opPut("compact_rev_key", "1")}, Failure: []*pb.RequestOp{opRange("compact_rev_key")}})
		return err
	})
	add("etcd.Txn(put-with-prevkv)", func(n *node20) error {
		_, err := n.es.Txn(ctx, &pb.TxnRequest{Compare: []*pb.Compare{cmpMod("/r/n", 0)}, Success: []*pb.RequestOp{{Request: &pb.RequestOp_RequestPut{RequestPut: &pb.PutRequest{Key: []byte("/r/n"), Value: []byte("x"), PrevKv: true}}}}})
		return err
	})
	add("etcd.Put", func(n *node20) error { _, err := n.es.Put(ctx, &pb.PutRequest{Key: []byte("/r/a")}); return err })
	add("etcd.DeleteRange", func(n *node20) error {
		_, err := n.es.DeleteRange(ctx, &pb.DeleteRangeRequest{Key: []byte("/r/a")})
		return err
	})
	add("etcd.Watch(range-stream)", func(n *node20) error { return watch20(n, []byte("/r/"), []byte("/r0"), -int64(base+1)) })
	add("etcd.Watch(range-stream,bad-key)", func(n *node20) error { return watch20(n, []byte("\xff\xfe"), nil, -1) })
	add("etcd.LeaseGrant", func(n *node20) error { _, err := n.es.LeaseGrant(ctx, &pb.LeaseGrantRequest{TTL: -1}); return err })
	return out
}

// runCase20 runs one or two requests on a fresh node and then checks that the node still serves.
func runCase20(reqs []req20) (obs string, viol *mc.Violation) {
	n := newNode20()
	var names []string
	for _, r := range reqs {
		names = append(names, r.name)
		_ = r.run(n)
		vrt.Quiesce()
	}
	// the node must still write, commit and read
	key := []byte("/r/follow-up")
	cr, err := n.bs.Create(context.Background(), &proto.CreateRequest{Key: key, Value: []byte("x")})
	vrt.Quiesce()
	if err != nil || !cr.Succeeded {
		return "follow-up-failed", &mc.Violation{Sig: "C20|follow-up-write-fails", Detail: fmt.Sprintf("after %v a create of a fresh key answers %v, %v", names, cr, err)}
	}
	l, err := n.bs.Range(context.Background(), &proto.RangeRequest{Key: []byte("/r/f"), End: []byte("/r/g")})
	found := false
	if err == nil {
		for _, kv := range l.Kvs {
			found = found || string(kv.Key) == string(key)
		}
	}
	if !found {
		committed, issued := backend.VerifPeek(n.b)
		return "wedged", &mc.Violation{Sig: "C20|node-wedged", Detail: fmt.Sprintf("after %v a later write (revision %d) is not readable at the current revision (read revision %d, handed out %d, err %v)", names, cr.Header.Revision, committed, issued, err)}
	}
	return "ok", nil
}

type c20Job struct {
	Pairs    bool
	From, To int
}

func c20Exec(j *mc.Job) *mc.JobResult {
	var cj c20Job
	json.Unmarshal(j.Extra, &cj)
	res := &mc.JobResult{Outcomes: map[string]int{}}
	if j.Kind == "emit-sites" {
		return c20EmitSites()
	}
	singles := requests20(false)
	reduced := requests20(true)
	for i := cj.From; i < cj.To; i++ {
		if j.Until > 0 && time.Now().UnixMilli() > j.Until {
			res.Cut = true
			break
		}
		var rs []req20
		if cj.Pairs {
			if i >= len(reduced)*len(reduced) {
				break
			}
			rs = []req20{reduced[i/len(reduced)], reduced[i%len(reduced)]}
		} else {
			if i >= len(singles) {
				break
			}
			rs = []req20{singles[i]}
		}
		var obs string
		var viol *mc.Violation
		r := vrt.Run(vrt.Config{Trace: j.Trace, Horizon: 2000000}, func() { obs, viol = runCase20(rs) })
		res.Execs++
		res.Steps += r.Steps
		res.States++
		var names []string
		for _, q := range rs {
			names = append(names, q.name)
		}
		if r.Panic != "" {
			site := "unknown"
			for _, ln := range strings.Split(r.Panic, "\n") {
				if strings.Contains(ln, "kubebrain/pkg/") && !strings.Contains(ln, "zz_verif") {
					site = strings.TrimSpace(ln)
					if i := strings.LastIndex(site, "/"); i >= 0 {
						site = site[i+1:]
					}
					if i := strings.Index(site, "("); i > 0 {
						site = site[:i]
					}
					break
				}
			}
			first := strings.SplitN(r.Panic, "\n", 2)[0]
			if len(first) > 160 {
				first = first[:160]
			}
			obs = "panic"
			viol = &mc.Violation{Sig: "C20|panic|" + site, Detail: fmt.Sprintf("request(s) %v: %s", names, r.Panic)}
			_ = first
		}
		if r.Deadlock && viol == nil {
			obs = "deadlock"
			viol = &mc.Violation{Sig: "C20|deadlock", Detail: fmt.Sprintf("request(s) %v: %v", names, r.Blocked)}
		}
		if r.Horizon {
			res.Horizons++
		}
		if j.Trace {
			res.Trace = r.Ops
		}
		res.Outcomes[obs]++
		if len(res.Samples) < 2 {
			res.Samples = append(res.Samples, strings.Join(names, " ; ")+" -> "+obs)
		}
		if viol != nil {
			dup := false
			for _, o := range res.Viols {
				dup = dup || o.Sig == viol.Sig
			}
			if !dup {
				jj := *j
				e, _ := json.Marshal(c20Job{cj.Pairs, i, i + 1})
				jj.Extra, jj.Until, jj.Budget = e, 0, 0
				viol.Job = &jj
				res.Viols = append(res.Viols, *viol)
			}
		}
	}
	return res
}

// ---------------------------------------------------------------------------------------------
// all metric emission call sites of the program: a metric name must always be emitted with the same
// kind and the same set of label names (the first emission fixes them; a later mismatch panics).

func repoRoot() string {
	if v := os.Getenv("VERIF_REPO"); v != "" {
		return v
	}
	return "/repo"
}

func c20EmitSites() *mc.JobResult {
	res := &mc.JobResult{Outcomes: map[string]int{}}
	fset := token.NewFileSet()
	type site struct {
		pos    string
		kind   string
		labels string
	}
	byName := map[string][]site{}
	nsites := 0
	filepath.Walk(filepath.Join(repoRoot(), "pkg"), func(p string, fi os.FileInfo, err error) error {
		if err != nil || fi.IsDir() || !strings.HasSuffix(p, ".go") || strings.HasSuffix(p, "_test.go") || strings.Contains(p, "/mock/") {
			return nil
		}
		f, err := parser.ParseFile(fset, p, nil, 0)
		if err != nil {
			return nil
		}
		// package-level string constants and tag variables of this file's package directory
		consts := map[string]string{}
		tags := map[string]string{}
		dir := filepath.Dir(p)
		ents, _ := os.ReadDir(dir)
		for _, e := range ents {
			if !strings.HasSuffix(e.Name(), ".go") || strings.HasSuffix(e.Name(), "_test.go") {
				continue
			}
			g, err := parser.ParseFile(fset, filepath.Join(dir, e.Name()), nil, 0)
			if err != nil {
				continue
			}
			for _, d := range g.Decls {
				gd, ok := d.(*ast.GenDecl)
				if !ok {
					continue
				}
				for _, sp := range gd.Specs {
					vs, ok := sp.(*ast.ValueSpec)
					if !ok {
						continue
					}
					for i, nm := range vs.Names {
						if i >= len(vs.Values) {
							continue
						}
						if bl, ok := vs.Values[i].(*ast.BasicLit); ok && bl.Kind == token.STRING {
							s, _ := strconv.Unquote(bl.Value)
							consts[nm.Name] = s
						}
					}
				}
			}
			for _, d := range g.Decls {
				gd, ok := d.(*ast.GenDecl)
				if !ok {
					continue
				}
				for _, sp := range gd.Specs {
					vs, ok := sp.(*ast.ValueSpec)
					if !ok {
						continue
					}
					for i, nm := range vs.Names {
						if i < len(vs.Values) {
							if t := tagName(vs.Values[i], consts); t != "" {
								tags[nm.Name] = t
							}
						}
					}
				}
			}
		}
		var strOf func(e ast.Expr) string
		strOf = func(e ast.Expr) string {
			switch e := e.(type) {
			case *ast.BasicLit:
				if e.Kind == token.STRING {
					s, _ := strconv.Unquote(e.Value)
					return s
				}
			case *ast.Ident:
				if s, ok := consts[e.Name]; ok {
					return s
				}
				return "$" + e.Name
			case *ast.BinaryExpr:
				if e.Op == token.ADD {
					return strOf(e.X) + strOf(e.Y)
				}
			}
			return "$?"
		}
		ast.Inspect(f, func(nd ast.Node) bool {
			fn, ok := nd.(*ast.FuncDecl)
			if !ok || fn.Body == nil {
				return true
			}
			// local tag variables: x := metrics.Tag("name", ...), x = metrics.Tag(...)
			local := map[string]string{}
			ast.Inspect(fn.Body, func(n ast.Node) bool {
				as, ok := n.(*ast.AssignStmt)
				if !ok {
					return true
				}
				for i, l := range as.Lhs {
					if id, ok := l.(*ast.Ident); ok && i < len(as.Rhs) {
						if t := tagName(as.Rhs[i], consts); t != "" {
							if old, had := local[id.Name]; had && old != t {
								local[id.Name] = "?"
							} else {
								local[id.Name] = t
							}
						}
					}
				}
				return true
			})
			ast.Inspect(fn.Body, func(n ast.Node) bool {
				ce, ok := n.(*ast.CallExpr)
				if !ok {
					return true
				}
				sel, ok := ce.Fun.(*ast.SelectorExpr)
				if !ok || len(ce.Args) < 2 {
					return true
				}
				kind := map[string]string{"EmitCounter": "counter", "EmitGauge": "gauge", "EmitHistogram": "histogram"}[sel.Sel.Name]
				if kind == "" {
					return true
				}
				nsites++
				name := strOf(ce.Args[0])
				var labels []string
				known := !ce.Ellipsis.IsValid()
				for _, a := range ce.Args[2:] {
					t := tagName(a, consts)
					if t == "" {
						if id, ok := a.(*ast.Ident); ok {
							if v, ok := local[id.Name]; ok {
								t = v
							} else if v, ok := tags[id.Name]; ok {
								t = v
							}
						}
					}
					if t == "" || t == "?" {
						known = false
					}
					labels = append(labels, t)
				}
				sort.Strings(labels)
				ls := strings.Join(labels, ",")
				if !known {
					ls = "?"
				}
				byName[name] = append(byName[name], site{fset.Position(ce.Pos()).String(), kind, ls})
				return true
			})
			return false
		})
		return nil
	})
	names := make([]string, 0, len(byName))
	for n := range byName {
		names = append(names, n)
	}
	sort.Strings(names)
	for _, n := range names {
		kinds, lists := map[string]string{}, map[string]string{}
		for _, s := range byName[n] {
			kinds[s.kind] = s.pos
			if s.labels != "?" {
				lists[s.labels] = s.pos
			}
		}
		res.Outcomes[fmt.Sprintf("%d-kinds-%d-label-lists", len(kinds), len(lists))]++
		if strings.Contains(n, "$") {
			continue // name not resolvable statically
		}
		if len(kinds) > 1 {
			res.Viols = append(res.Viols, mc.Violation{Sig: "C20|metric-emitted-as-two-kinds|" + n, Detail: fmt.Sprintf("metric %q is emitted as %v", n, kinds)})
		}
		if len(lists) > 1 {
			res.Viols = append(res.Viols, mc.Violation{Sig: "C20|metric-emitted-with-two-label-sets|" + n, Detail: fmt.Sprintf("metric %q is emitted with label name lists %v", n, lists)})
		}
	}
	res.Execs = nsites
	res.States = len(byName)
	res.Steps = nsites
	res.Samples = []string{fmt.Sprintf("%d emission call sites, %d metric names", nsites, len(byName))}
	return res
}

// tagName returns the label name of an expression of the form metrics.Tag("name", ...).
func tagName(e ast.Expr, consts map[string]string) string {
	ce, ok := e.(*ast.CallExpr)
	if !ok || len(ce.Args) != 2 {
		return ""
	}
	sel, ok := ce.Fun.(*ast.SelectorExpr)
	if !ok || sel.Sel.Name != "Tag" {
		return ""
	}
	switch a := ce.Args[0].(type) {
	case *ast.BasicLit:
		s, _ := strconv.Unquote(a.Value)
		return s
	case *ast.Ident:
		if s, ok := consts[a.Name]; ok {
			return s
		}
	}
	return "?"
}

func init() {
	mc.Register(&mc.Property{
		ID:     "C20",
		Level:  "exploration",
		Rule:   "bounded-exhaustive input enumeration on a real node (etcd and native servers over the metrics-wrapped in-memory engine with the REAL Prometheus client, fresh registry per case): every request of a value lattice (8 keys incl. nil, empty, invalid UTF-8, NUL, 1 KiB; 4 values; 9 revisions incl. negative and extreme; up to 6 range ends; 8 limits incl. huge non-wrapping ones; unset sub-messages and oneofs; unsupported shapes) through etcd Txn/Range/Watch/Compact/Put/DeleteRange/LeaseGrant and native Create/Update/Delete/Get/Range/Count/ListPartition/RangeStream/Watch/Compact, singly, and every ORDERED PAIR of a reduced set (the first emission of a metric fixes its label names); after each case the node must still commit and serve a follow-up write; plus a static pass over every Emit* call site resolving name, kind and label-name list; a case is distinct by its request content",
		Assume: []string{"handlers are called directly (gRPC transport and protobuf decoding are not exercised; requests are the structures a decoder can produce: no nil elements in repeated fields)", "leader role; in-memory engine behind the storage metrics wrapper"},
		Exec:   c20Exec,
		Drive: func(c *mc.Ctx) {
			nS := len(requests20(false))
			nR := len(requests20(true))
			submit := func(kind string, cj c20Job) {
				e, _ := json.Marshal(cj)
				c.Pool.Submit(mc.Job{Prop: "C20", Kind: kind, Tier: c.Tier, Extra: e, Until: c.Deadline.UnixMilli()}, func(j mc.Job, r *mc.JobResult) { c.Agg.Add(j, r) })
			}
			submit("emit-sites", c20Job{})
			for from := 0; from < nS; from += 50 {
				submit("cases", c20Job{false, from, from + 50})
			}
			pairs := nR * nR

			for from := 0; from < pairs; from += 50 {
				submit("cases", c20Job{true, from, minInt(from+50, pairs)})
			}
			c.Pool.Wait()
			c.Cov["single_requests"] = nS
			c.Cov["reduced_set"] = nR
			c.Cov["ordered_pairs"] = pairs
			c.Cov["distinct_nontrivial"] = c.Agg.States
		},
	})
}
