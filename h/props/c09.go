package props

import (
	"encoding/binary"
	"encoding/json"
	"errors"
	"fmt"
	"sort"
	"strings"
	"time"

	proto "github.com/kubewharf/kubebrain-client/api/v2rpc"

	"github.com/kubewharf/kubebrain/pkg/backend"
	"github.com/kubewharf/kubebrain/pkg/storage"
	"github.com/kubewharf/kubebrain/zz_verif/h/hx"
	"github.com/kubewharf/kubebrain/zz_verif/h/mc"
	"github.com/kubewharf/kubebrain/zz_verif/rt/vrt"
)

// C09 — indeterminate storage outcomes are repaired, never mis-reported.

var c09Keys = []string{"/r/a", "/r/b"}

// step alphabet of a case: 0..5 writes (create/upd-ok/del-ok x 2 keys), 6 compact, 7 advance the clock
const (
	c09Compact = 6
	c09Clock   = 7
)

type c09Case struct {
	Prefix  []int // writes before the fault
	Fault   int   // the faulted write (0..5)
	Applied bool  // unknown outcome: the batch was in fact applied
	Cont    []int // continuation steps (0..7)
	Repair  int   // fate of the first repair commit: 0 ok, 1 plain error, 2 unknown+applied, 3 unknown+dropped
	FaultAt int   // which commit of the faulted write is hit: 0 the first, 1 the second (a create over a tombstone commits twice)
}

func (c c09Case) String() string {
	n := func(s int) string {
		switch {
		case s == c09Compact:
			return "compact"
		case s == c09Clock:
			return "clock"
		}
		return fmt.Sprintf("%s(%s)", []string{"create", "upd-ok", "del-ok"}[s%3], c09Keys[s/3])
	}
	var p, ct []string
	for _, s := range c.Prefix {
		p = append(p, n(s))
	}
	for _, s := range c.Cont {
		ct = append(ct, n(s))
	}
	return fmt.Sprintf("prefix=[%s] fault=%s commit#%d applied=%v cont=[%s] repair-fate=%d", strings.Join(p, ","), n(c.Fault), c.FaultAt+1, c.Applied, strings.Join(ct, ","), c.Repair)
}

func c09Cases(tier string) []c09Case {
	maxPre, maxCont := 2, 2
	if tier == "thorough" {
		maxPre, maxCont = 2, 3
	}
	var prefixes [][]int
	prefixes = append(prefixes, nil)
	var grow func(p []int, d int)
	grow = func(p []int, d int) {
		if d == 0 {
			return
		}
		for s := 0; s < 6; s++ {
			q := append(append([]int{}, p...), s)
			prefixes = append(prefixes, q)
			grow(q, d-1)
		}
	}
	grow(nil, maxPre)
	var conts [][]int
	conts = append(conts, nil)
	var growC func(p []int, d int)
	growC = func(p []int, d int) {
		if d == 0 {
			return
		}
		for s := 0; s <= c09Clock; s++ {
			q := append(append([]int{}, p...), s)
			conts = append(conts, q)
			growC(q, d-1)
		}
	}
	growC(nil, maxCont)
	var out []c09Case
	for _, p := range prefixes {
		for f := 0; f < 6; f++ {
			for _, ap := range []bool{true, false} {
				for _, ct := range conts {
					for rp := 0; rp < 4; rp++ {
						out = append(out, c09Case{p, f, ap, ct, rp, 0})
					}
					// the second commit of the faulted write: only a write preceded by something can have one
					if len(p) > 0 && len(ct) <= 1 {
						for rp := 0; rp < 4; rp++ {
							out = append(out, c09Case{p, f, ap, ct, rp, 1})
						}
					}
				}
			}
		}
	}
	return out
}

func c09RunCase(c c09Case) (obs string, viols []mc.Violation) {
	fail := func(sig, f string, a ...interface{}) {
		viols = append(viols, mc.Violation{Sig: "C09|" + sig, Detail: c.String() + ": " + fmt.Sprintf(f, a...)})
	}
	backend.VerifSetIntervals(5*time.Second, time.Second)
	w := newWorld(hx.Mem, 64)
	defer w.close()
	m := newMvcc()
	so := &mc.SeqOut{}
	write := func(s int) *clientOp {
		o := seqOp{s / 3, []reqKind{rCreate, rUpdOK, rDelOK}[s%3], fmt.Sprintf("v%d", len(w.ops))}
		key := c09Keys[o.key]
		exp := uint64(0)
		if o.kind != rCreate {
			if l, ok := m.latest(key); ok {
				exp = l.rev
			} else {
				exp = base
			}
		}
		op := &clientOp{Key: key, Kind: o.kind, Exp: exp, Val: o.val}
		w.do(op)
		vrt.Quiesce()
		return op
	}
	// prefix
	for _, s := range c.Prefix {
		op := write(s)
		if op.Err != nil {
			fail("prefix-error", "unfaulted write failed: %v", op.Err)
			return "prefix-error", viols
		}
		if op.OK {
			m.apply(op.Kind, op.Key, op.Val, op.Hdr)
		}
	}
	_ = so
	evCh, werr := w.b.Watch(bg, "/r/", 0)
	if werr != nil {
		panic(werr)
	}
	snapResp, err := w.b.List(bg, &proto.RangeRequest{Key: []byte("/r/"), End: []byte("/r0")})
	if err != nil {
		panic(err)
	}
	snap := map[string]mkv{}
	for _, kv := range snapResp.Kvs {
		snap[string(kv.Key)] = mkv{string(kv.Key), string(kv.Value), kv.Revision}
	}
	// the faulted write: only a write that would reach the engine with a satisfiable condition is interesting,
	// but every kind is tried (a write whose condition fails never commits: the fault then hits nothing)
	faultCommit := w.kv.Commits()
	hit := false
	repairHit := false
	w.kv.CommitFault = func(n int, b *hx.BatchRec) hx.FaultKind {
		if b.Thread == "0.2" { // the retry loop
			if !repairHit {
				repairHit = true
				switch c.Repair {
				case 1:
					return hx.FailPlain
				case 2:
					return hx.UncertainApplied
				case 3:
					return hx.UncertainDropped
				}
			}
			return hx.NoFault
		}
		if n >= faultCommit+c.FaultAt && !hit {
			hit = true
			if c.Applied {
				return hx.UncertainApplied
			}
			return hx.UncertainDropped
		}
		return hx.NoFault
	}
	wantOK := m.expectWrite([]reqKind{rCreate, rUpdOK, rDelOK}[c.Fault%3], c09Keys[c.Fault/3], func() uint64 {
		if l, ok := m.latest(c09Keys[c.Fault/3]); ok {
			return l.rev
		}
		return base
	}())
	fop := write(c.Fault)
	if !hit {
		// the write never committed (condition known to fail before the engine was reached): not a fault case
		return "fault-not-reached", nil
	}
	var frev uint64
	for _, b := range w.kv.Batches {
		for _, o := range b.Ops {
			if _, r, err := hx.Coder.Decode(o.Key); err == nil && r != 0 && o.Kind == "put" && b.Done && errors.Is(b.Err, storage.ErrUncertainResult) && frev == 0 {
				frev = r
			}
		}
	}
	if frev == 0 {
		// the engine evaluated the batch and answered definitely (a condition failed): not an unknown outcome
		return "fault-not-reached", nil
	}
	if fop.Err == nil {
		fail("unknown-outcome-reported-as-definite", "the engine answered 'outcome unknown' but the client got succeeded=%v without error", fop.OK)
	}
	_ = wantOK
	// model: the write has in fact happened iff the batch was applied (and its conditions held in the engine)
	fApplied := false
	for _, r := range w.dump() {
		if !r.Raw && r.Rev == frev && r.Key == fop.Key {
			fApplied = true
		}
	}
	if fApplied {
		m.apply(fop.Kind, fop.Key, fop.Val, frev)
	}
	checkProgress := func(when string) {
		committed, issued := backend.VerifPeek(w.b)
		if committed != issued {
			fail("stalled-while-queued", "%s: read revision %d, handed out %d", when, committed, issued)
		}
	}
	checkProgress("after the faulted write")
	acked := []*clientOp{}
	advance := func() {
		vrt.Advance(6 * time.Second)
		vrt.Quiesce()
	}
	for _, s := range c.Cont {
		switch s {
		case c09Clock:
			advance()
		case c09Compact:
			qlen := backend.VerifRetryQueueLen(w.b)
			r, err := w.b.Compact(bg, 0)
			vrt.Quiesce()
			if err != nil {
				fail("compact-error", "%v", err)
				break
			}
			if qlen > 0 && frev != 0 && r.Header.GetRevision() >= frev {
				// which revision is queued: frev, or the revision of a repair attempt that is itself uncertain
				if qrev := w.queuedRevision(frev); r.Header.GetRevision() >= qrev {
					fail("compaction-passes-unresolved-revision", "Compact answered revision %d while the write at revision %d is unresolved", int64(r.Header.GetRevision())-base, int64(qrev)-base)
				}
			}
			if v, err := w.kv.KvStorage.Get(bg, []byte("/r/compact_key")); err == nil && len(v) == 8 && qlen > 0 {
				if rec := binary.BigEndian.Uint64(v); rec >= w.queuedRevision(frev) {
					fail("compaction-record-passes-unresolved-revision", "stored compaction revision %d while the write at revision %d is unresolved", int64(rec)-base, int64(w.queuedRevision(frev))-base)
				}
			}
		default:
			// the model cannot always know what the engine holds for the faulted key while the repair
			// is pending; the outcome of continuation writes is taken from the implementation and
			// only acknowledged ones are tracked
			op := write(s)
			if op.OK {
				acked = append(acked, op)
			}
		}
		checkProgress("after continuation step")
	}
	// let the repair run to completion
	for i := 0; i < 6 && backend.VerifRetryQueueLen(w.b) > 0; i++ {
		advance()
	}
	if n := backend.VerifRetryQueueLen(w.b); n > 0 {
		fail("never-converges", "the retry queue still holds %d entries after 6 retry intervals", n)
	}
	checkProgress("at the end")
	nevs, bad := c09Final(w, evCh, snap, acked, fail)
	if bad {
		return "error", viols
	}
	w.clean = true
	return fmt.Sprintf("applied=%v repaired-events=%d acked=%d", fApplied, nevs, len(acked)), viols
}

// c09Final: the convergence oracle - the events delivered to a watcher opened before the fault, applied to
// the snapshot taken then, give exactly what the store holds; every acknowledged write was delivered and is durable.
func c09Final(w *world, evCh <-chan []*proto.Event, snap map[string]mkv, acked []*clientOp, fail func(sig, f string, a ...interface{})) (int, bool) {
	// events delivered to the watcher
	var evs []evRec
	for {
		n, _, _ := vrt.ChanLen(evCh)
		if n == 0 {
			break
		}
		for _, e := range <-evCh {
			evs = append(evs, evRec{e.Type, e.Revision, string(e.Kv.GetKey()), string(e.Kv.GetValue()), e.Kv.GetRevision()})
		}
	}
	for i := 1; i < len(evs); i++ {
		if evs[i].rev <= evs[i-1].rev {
			fail("events-out-of-order", "%s", evsString(evs))
		}
	}
	final, err := w.b.List(bg, &proto.RangeRequest{Key: []byte("/r/"), End: []byte("/r0")})
	if err != nil {
		fail("final-list-error", "%v", err)
		return len(evs), true
	}
	got := map[string]mkv{}
	for _, kv := range final.Kvs {
		got[string(kv.Key)] = mkv{string(kv.Key), string(kv.Value), kv.Revision}
	}
	want := applyEvents(snap, evs, ^uint64(0))
	if snapString(got) != snapString(want) {
		fail("store-and-events-diverge", "snapshot %s plus delivered events %s gives %s, but the store holds %s", snapString(snap), evsString(evs), snapString(want), snapString(got))
	}
	// every acknowledged write was delivered and is durable
	for _, op := range acked {
		found := false
		for _, e := range evs {
			if e.rev == op.Hdr {
				found = true
			}
		}
		if !found {
			fail("acknowledged-write-not-delivered", "%s on %s acknowledged at revision %d is missing from the delivered events %s", reqNames[op.Kind], op.Key, int64(op.Hdr)-base, evsString(evs))
		}
		// a read at the write's own revision is meaningful only while that revision is not below the compaction floor
		if v, err := w.kv.KvStorage.Get(bg, []byte("/r/compact_key")); err == nil && len(v) == 8 && op.Hdr < binary.BigEndian.Uint64(v) {
			continue
		}
		g, err := w.b.Get(bg, &proto.GetRequest{Key: []byte(op.Key), Revision: op.Hdr})
		if err == nil && !op.Kind.isDelete() && !kvEq(g.Kv, op.Val, op.Hdr) {
			fail("acknowledged-write-not-durable", "%s on %s acknowledged at revision %d: a read at that revision returns %v", reqNames[op.Kind], op.Key, int64(op.Hdr)-base, g.Kv)
		}
	}
	// point reads and conditional writes go through the key's revision record, range reads through its
	// versions: both views must agree with the replayed events
	for _, k := range c09Keys {
		wk, live := want[k]
		g, err := w.b.Get(bg, &proto.GetRequest{Key: []byte(k)})
		switch {
		case err != nil:
			fail("final-get-error", "%s: %v", k, err)
		case live && !kvEq(g.Kv, wk.val, wk.rev):
			fail("point-read-and-events-diverge", "snapshot %s plus delivered events %s leaves %s = %q at revision %d, a point read returns %v", snapString(snap), evsString(evs), k, wk.val, int64(wk.rev)-base, g.Kv)
		case !live && g.Kv != nil:
			fail("point-read-and-events-diverge", "snapshot %s plus delivered events %s leaves %s absent, a point read returns %v", snapString(snap), evsString(evs), k, g.Kv)
		}
	}
	for _, k := range c09Keys {
		wk, live := want[k]
		op := &clientOp{Key: k, Kind: rCreate, Val: "probe"}
		if live {
			op = &clientOp{Key: k, Kind: rUpdOK, Exp: wk.rev, Val: "probe"}
		}
		w.do(op)
		vrt.Quiesce()
		if op.Err != nil || !op.OK {
			fail("converged-key-not-writable", "snapshot %s plus delivered events %s: afterwards %s on %s (expecting revision %d) answered succeeded=%v err=%v", snapString(snap), evsString(evs), reqNames[op.Kind], k, int64(op.Exp)-base, op.OK, op.Err)
		}
	}
	return len(evs), false
}

// queuedRevision: the revision of the oldest unresolved write (the faulted one, or a repair attempt
// that itself ended with an unknown outcome).
func (w *world) queuedRevision(frev uint64) uint64 {
	q := frev
	var unk []uint64
	for _, b := range w.kv.Batches {
		if b.Done && errors.Is(b.Err, storage.ErrUncertainResult) {
			for _, o := range b.Ops {
				if _, r, err := hx.Coder.Decode(o.Key); err == nil && r != 0 && o.Kind == "put" {
					unk = append(unk, r)
				}
			}
		}
	}
	sort.Slice(unk, func(i, j int) bool { return unk[i] < unk[j] })
	if len(unk) > 0 {
		q = unk[len(unk)-1] // the most recent unresolved attempt is the one still queued
	}
	return q
}

// ---- schedules: the retry loop against a concurrent writer on the same key ----

type c09Sched struct {
	Fault   int   // the faulted write: 0 create (no earlier history), 1 upd-ok, 2 del-ok (after create)
	Applied bool  // the unknown-outcome batch was in fact applied
	Writer  []int // the concurrent client: 0 create, 1 update expecting the faulted revision, 2 update expecting the earlier revision, 3 unconditional delete
	Repair  int   // fate of the first repair commit
	Compact bool  // a compaction request runs too
}

func (c c09Sched) name() string {
	return fmt.Sprintf("C09/sched/fault=%s/applied=%v/writer=%v/repair-fate=%d/compact=%v", []string{"create", "upd-ok", "del-ok"}[c.Fault], c.Applied, c.Writer, c.Repair, c.Compact)
}

func c09Scheds(tier string) []c09Sched {
	out := []c09Sched{
		{1, true, []int{1}, 0, false},
		{1, false, []int{2}, 0, false},
		{0, false, []int{0}, 0, false},
		{2, true, []int{0}, 0, false},
		{1, true, []int{3}, 0, true},
	}
	if tier == "thorough" {
		out = append(out,
			c09Sched{0, true, []int{1}, 0, false},
			c09Sched{2, false, []int{2}, 0, false},
			c09Sched{1, false, []int{3, 0}, 0, false},
			c09Sched{1, true, []int{1}, 2, false},
			c09Sched{1, false, []int{2}, 3, false},
			c09Sched{2, true, []int{0}, 1, true},
			c09Sched{1, true, []int{1, 3}, 0, true},
		)
	}
	return out
}

func c09SchedScenario(c c09Sched) *mc.Scenario {
	return &mc.Scenario{Name: c.name(), Body: func(x *mc.X) {
		fail := func(sig, f string, a ...interface{}) { x.Fail("C09|"+sig, f, a...) }
		backend.VerifSetIntervals(5*time.Second, time.Second)
		w := newWorld(hx.Mem, 64)
		defer w.close()
		key := c09Keys[0]
		var prev uint64
		if c.Fault != 0 {
			op := &clientOp{Key: key, Kind: rCreate, Val: "v0"}
			w.do(op)
			vrt.Quiesce()
			if !op.OK {
				panic("initial create failed")
			}
			prev = op.Hdr
		}
		evCh, werr := w.b.Watch(bg, "/r/", 0)
		if werr != nil {
			panic(werr)
		}
		snap := map[string]mkv{}
		if prev != 0 {
			snap[key] = mkv{key, "v0", prev}
		}
		hit, repairHit := false, false
		w.kv.CommitFault = func(n int, b *hx.BatchRec) hx.FaultKind {
			if b.Thread == "0.2" { // the retry loop
				if !repairHit {
					repairHit = true
					switch c.Repair {
					case 1:
						return hx.FailPlain
					case 2:
						return hx.UncertainApplied
					case 3:
						return hx.UncertainDropped
					}
				}
				return hx.NoFault
			}
			if !hit {
				hit = true
				if c.Applied {
					return hx.UncertainApplied
				}
				return hx.UncertainDropped
			}
			return hx.NoFault
		}
		fop := &clientOp{Key: key, Kind: []reqKind{rCreate, rUpdOK, rDelOK}[c.Fault], Exp: prev, Val: "vf"}
		w.do(fop)
		vrt.Quiesce()
		if !hit || fop.Err == nil {
			fail("unknown-outcome-reported-as-definite", "the engine answered 'outcome unknown' but the client got succeeded=%v without error", fop.OK)
			return
		}
		frev := w.queuedRevision(0)
		var wops []*clientOp
		vrt.BeginExplore()
		var ths []*vrt.Thread
		ths = append(ths, vrt.Go(func() { vrt.Advance(6 * time.Second) }))
		ths = append(ths, vrt.Go(func() {
			for i, k := range c.Writer {
				op := &clientOp{Key: key, Val: fmt.Sprintf("w%d", i)}
				switch k {
				case 0:
					op.Kind = rCreate
				case 1:
					op.Kind, op.Exp = rUpdOK, frev
				case 2:
					op.Kind, op.Exp = rUpdOK, prev
				case 3:
					op.Kind = rDel0
				}
				wops = append(wops, op)
				w.do(op)
			}
		}))
		if c.Compact {
			ths = append(ths, vrt.Go(func() {
				qlen := backend.VerifRetryQueueLen(w.b)
				q := w.queuedRevision(frev)
				r, err := w.b.Compact(bg, 0)
				if err != nil {
					fail("compact-error", "%v", err)
					return
				}
				// the queue can only have shrunk by a completed repair; a request that saw the entry queued
				// before it began and still answers at or above it is judged only when the entry is still queued after
				if qlen > 0 && backend.VerifRetryQueueLen(w.b) > 0 && w.queuedRevision(frev) == q && r.Header.GetRevision() >= q {
					fail("compaction-passes-unresolved-revision", "Compact answered revision %d while the write at revision %d is unresolved", int64(r.Header.GetRevision())-base, int64(q)-base)
				}
			}))
		}
		for _, t := range ths {
			vrt.Join(t)
		}
		vrt.Quiesce()
		vrt.EndExplore()
		for i := 0; i < 6 && backend.VerifRetryQueueLen(w.b) > 0; i++ {
			vrt.Advance(6 * time.Second)
			vrt.Quiesce()
		}
		if n := backend.VerifRetryQueueLen(w.b); n > 0 {
			fail("never-converges", "the retry queue still holds %d entries after 6 retry intervals", n)
		}
		if committed, issued := backend.VerifPeek(w.b); committed != issued {
			fail("stalled-while-queued", "at the end: read revision %d, handed out %d", committed, issued)
		}
		var acked []*clientOp
		var outs []string
		for _, op := range wops {
			if op.OK {
				acked = append(acked, op)
			}
			outs = append(outs, fmt.Sprintf("%s:%v/%v", reqNames[op.Kind], op.OK, op.Err != nil))
		}
		nevs, _ := c09Final(w, evCh, snap, acked, fail)
		x.Obs = fmt.Sprintf("%v events=%d", outs, nevs)
		w.clean = true
	}}
}

type c09Job struct{ From, To int }

func c09Exec(j *mc.Job) *mc.JobResult {
	var cj c09Job
	json.Unmarshal(j.Extra, &cj)
	cases := c09Cases(j.Tier)
	res := &mc.JobResult{Outcomes: map[string]int{}}
	for i := cj.From; i < cj.To && i < len(cases); i++ {
		if j.Until > 0 && time.Now().UnixMilli() > j.Until {
			res.Cut = true
			break
		}
		var obs string
		var viols []mc.Violation
		r := vrt.Run(vrt.Config{Trace: j.Trace}, func() { obs, viols = c09RunCase(cases[i]) })
		res.Execs++
		res.Steps += r.Steps
		if r.Panic != "" {
			viols = append(viols, mc.Violation{Sig: "C09|panic", Detail: cases[i].String() + ": " + r.Panic})
		}
		if r.Deadlock {
			viols = append(viols, mc.Violation{Sig: "C09|deadlock", Detail: cases[i].String() + fmt.Sprint(r.Blocked)})
		}
		if j.Trace {
			res.Trace = r.Ops
		}
		res.Outcomes[obs]++
		if obs != "fault-not-reached" {
			res.States++
		}
		if len(res.Samples) < 2 && obs != "fault-not-reached" {
			res.Samples = append(res.Samples, cases[i].String()+" -> "+obs)
		}
		for _, v := range viols {
			dup := false
			for _, o := range res.Viols {
				dup = dup || o.Sig == v.Sig
			}
			if !dup {
				jj := *j
				e, _ := json.Marshal(c09Job{i, i + 1})
				jj.Extra, jj.Until, jj.Budget = e, 0, 0
				v.Job = &jj
				res.Viols = append(res.Viols, v)
			}
		}
	}
	return res
}

func init() {
	mc.Register(&mc.Property{
		ID:     "C09",
		Level:  "fault_enumeration",
		Rule:   "exhaustive enumeration: every history of 0-2 writes x an unknown-outcome fault on the first (and, for continuations of at most one step, the second) commit of each of 6 write kinds x both variants (batch applied / not applied) x every continuation of up to 2 (thorough 3) steps from {6 writes, compaction, retry interval elapses} x 4 fates of the first repair commit (ok, plain error, unknown+applied, unknown+not applied), run on the real backend with the real sequencer and retry loop on a virtual clock; a case is distinct by its parameters and non-trivial when the fault actually hit a commit; plus every schedule (preemption-bounded DFS, bound 1 quick / 2 thorough) of the retry loop firing while a client writes the same key (create / update expecting the unresolved revision / update expecting the earlier revision / unconditional delete) and optionally a compaction request, for create / update / delete faulted, applied or not, with the same convergence oracle",
		Assume: []string{"in-memory engine; the unknown outcome is injected at the storage.KvStorage seam", "retry / check interval 5 s / 1 s on the virtual clock", "the enumeration uses a single client and the default schedule; the schedule scenarios cover the retry loop against a concurrent writer on the same key (and a compaction request)"},
		Exec:   c09Exec,
		Scenarios: func(tier string) []*mc.Scenario {
			var out []*mc.Scenario
			for _, c := range c09Scheds(tier) {
				out = append(out, c09SchedScenario(c))
			}
			return out
		},
		Drive: func(c *mc.Ctx) {
			n := len(c09Cases(c.Tier))
			chunk := 200
			for from := 0; from < n; from += chunk {
				if c.Remaining() <= 0 {
					c.Agg.Cut = true
					break
				}
				e, _ := json.Marshal(c09Job{from, from + chunk})
				c.Pool.Submit(mc.Job{Prop: "C09", Kind: "cases", Tier: c.Tier, Extra: e, Until: c.Deadline.UnixMilli()}, func(j mc.Job, r *mc.JobResult) { c.Agg.Add(j, r) })
			}
			c.Pool.Wait()
			c.Cov["cases"] = n
			c.Cov["distinct_nontrivial"] = c.Agg.States
			c.Cov["cases_executions"] = c.Agg.Execs
			mc.DriveSchedules(c, func(i int, sc *mc.Scenario) mc.SchedPlan {
				p := mc.SchedPlan{Class: "retry-loop-vs-writer", Bounds: []int{0, 1}, Shard: true}
				if c.Tier == "thorough" {
					p.Bounds = []int{0, 1, 2}
				}
				if strings.HasSuffix(sc.Name, "compact=true") {
					p.Class += "-and-compaction"
					p.Bounds = p.Bounds[:len(p.Bounds)-1]
				}
				return p
			})
		},
	})
}
