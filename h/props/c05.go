package props

import (
	"context"
	"fmt"
	"sort"
	"strings"

	proto "github.com/kubewharf/kubebrain-client/api/v2rpc"

	"github.com/kubewharf/kubebrain/pkg/backend"
	"github.com/kubewharf/kubebrain/zz_verif/h/hx"
	"github.com/kubewharf/kubebrain/zz_verif/h/mc"
	"github.com/kubewharf/kubebrain/zz_verif/rt/vrt"
)

// C05 — a watch delivers exactly the matching changes, once, in order — or is closed.

const c05Prefix = "/r/w/"

// writer operations
type wop int

const (
	wCreateX   wop = iota // create /r/w/x
	wUpdateX              // update /r/w/x at its current revision (harness tracks it per thread)
	wDeleteX              // delete /r/w/x (unguarded)
	wCreateY              // create /r/w/y
	wCreateOut            // create /r/o/z (outside the watched prefix)
	wDupP                 // create /r/w/p again (fails when /r/w/p exists)
	wUpdateP              // update /r/w/p (pre-window key) unguarded-by-thread: uses revision 0 => create semantics, fails when live
	wDeleteP              // delete /r/w/p (unguarded)
	wUpdStaleP            // update /r/w/p naming a revision it never had: a failed condition on the PUT path
)

var wopNames = [...]string{"createX", "updateX", "deleteX", "createY", "createOut", "dupP", "upd0P", "deleteP", "updStaleP"}

type c05Cfg struct {
	cache    int
	pre      int    // events produced before the exploration window (on /r/w/p)
	start    string // zero below oldest inside newest newest+1 far
	consumer string // eager lazy stalled
	writers  [][]wop
	watchBuf int
	gaps     bool // failed writes between the pre-window events: cached revisions are not consecutive
}

func (c c05Cfg) name() string {
	var ws []string
	for _, w := range c.writers {
		var s []string
		for _, o := range w {
			s = append(s, wopNames[o])
		}
		ws = append(ws, strings.Join(s, ","))
	}
	g := ""
	if c.gaps {
		g = "/gaps"
	}
	return fmt.Sprintf("C05/cache=%d/pre=%d%s/start=%s/%s/buf=%d/%s", c.cache, c.pre, g, c.start, c.consumer, c.watchBuf, strings.Join(ws, "|"))
}

type evRec struct {
	typ   proto.Event_EventType
	rev   uint64
	key   string
	val   string
	kvRev uint64
}

func (e evRec) String() string {
	return fmt.Sprintf("%s@%d(%s=%s@%d)", e.typ, int64(e.rev)-base, e.key, e.val, int64(e.kvRev)-base)
}

func evsString(l []evRec) string {
	var s []string
	for _, e := range l {
		s = append(s, e.String())
	}
	return "[" + strings.Join(s, " ") + "]"
}

// groundTruth derives the event list from the successful client operations (in revision order).
func groundTruth(ops []*clientOp) []evRec {
	var succ []*clientOp
	for _, op := range ops {
		if op.OK {
			succ = append(succ, op)
		}
	}
	sort.Slice(succ, func(i, j int) bool { return succ[i].Hdr < succ[j].Hdr })
	type cur struct {
		val string
		rev uint64
	}
	state := map[string]cur{}
	var out []evRec
	for _, op := range succ {
		c := state[op.Key]
		switch {
		case op.Kind.isDelete():
			out = append(out, evRec{proto.Event_DELETE, op.Hdr, op.Key, c.val, c.rev})
			delete(state, op.Key)
		case op.Kind.isCreate():
			out = append(out, evRec{proto.Event_CREATE, op.Hdr, op.Key, op.Val, op.Hdr})
			state[op.Key] = cur{op.Val, op.Hdr}
		default:
			out = append(out, evRec{proto.Event_PUT, op.Hdr, op.Key, op.Val, op.Hdr})
			state[op.Key] = cur{op.Val, op.Hdr}
		}
	}
	return out
}

func c05Scenario(c c05Cfg) *mc.Scenario {
	return &mc.Scenario{Name: c.name(), Body: func(x *mc.X) {
		backend.VerifSetCapacities(2, c.watchBuf, 2)
		defer backend.VerifSetCapacities(300, 10000, 100)
		w := newWorld(hx.Mem, c.cache)
		defer w.close()
		// pre-window history on /r/w/p: create, update, update, ... (fills / wraps the event cache)
		var allOps []*clientOp
		prev := uint64(0)
		for i := 0; i < c.pre; i++ {
			op := &clientOp{Key: "/r/w/p", Kind: rCreate, Val: fmt.Sprintf("p%d", i)}
			if i > 0 {
				op.Kind, op.Exp = rUpdOK, prev
			}
			w.do(op)
			vrt.Quiesce()
			if !op.OK {
				panic("pre-window write failed")
			}
			prev = op.Hdr
			allOps = append(allOps, op)
			if c.gaps {
				// a failed write consumes a revision without producing an event
				f := &clientOp{Key: "/r/w/p", Kind: rCreate, Val: "dup"}
				w.do(f)
				vrt.Quiesce()
				if f.OK {
					panic("duplicate create succeeded")
				}
			}
		}
		committed := w.b.GetCurrentRevision()
		oldest := committed - uint64(minInt(c.pre, c.cache)) + 1 // oldest cached event revision (if any)
		if c.gaps && c.pre > 0 {
			// events sit at base+1, base+3, ...; the cache holds the last min(pre, cache) of them
			n := minInt(c.pre, c.cache)
			oldest = base + 1 + 2*uint64(c.pre-n)
		}
		var S uint64
		switch c.start {
		case "zero":
			S = 0
		case "below":
			S = oldest - 1
		case "oldest":
			S = oldest
		case "inside":
			S = (oldest + committed + 1) / 2
		case "inside-gap":
			S = oldest + 1 // with gaps: a revision between two cached events
		case "inside-2nd":
			S = oldest + 2 // with gaps: the second cached event
		case "newest":
			S = committed
		case "newest+1":
			S = committed + 1
		case "far":
			S = committed + 50
		}
		if c.pre == 0 && (c.start == "below" || c.start == "oldest" || strings.HasPrefix(c.start, "inside") || c.start == "newest") {
			S = committed // nothing cached: a start revision at the committed revision
		}
		w.ops = nil
		var recv []evRec
		closed := false
		var watchErr error
		var ch <-chan []*proto.Event
		watchRet := -1
		ctx, cancel := context.WithCancel(bg)
		defer cancel()
		consume := func() {
			for {
				vrt.Recv(ch)
				evs, ok := <-ch
				vrt.Recvd()
				if !ok {
					closed = true
					return
				}
				for _, e := range evs {
					recv = append(recv, evRec{e.Type, e.Revision, string(e.Kv.GetKey()), string(e.Kv.GetValue()), e.Kv.GetRevision()})
				}
			}
		}
		vrt.BeginExplore()
		var ths []*vrt.Thread
		watcher := vrt.Go(func() {
			vrt.Mark()
			ch, watchErr = w.b.Watch(ctx, c05Prefix, S)
			watchRet = vrt.Steps()
			vrt.Mark()
			if watchErr == nil && c.consumer == "eager" {
				consume()
			}
		})
		for ti, ops := range c.writers {
			ti, ops := ti, ops
			ths = append(ths, vrt.Go(func() {
				xrev := uint64(0)
				for oi, o := range ops {
					op := &clientOp{Val: fmt.Sprintf("w%d.%d", ti, oi)}
					switch o {
					case wCreateX:
						op.Key, op.Kind = "/r/w/x", rCreate
					case wUpdateX:
						op.Key, op.Kind, op.Exp = "/r/w/x", rUpdOK, xrev
						if xrev == 0 {
							op.Exp = base // unknown: fails
						}
					case wDeleteX:
						op.Key, op.Kind = "/r/w/x", rDel0
					case wCreateY:
						op.Key, op.Kind = "/r/w/y", rCreate
					case wCreateOut:
						op.Key, op.Kind = "/r/o/z", rCreate
					case wDupP:
						op.Key, op.Kind = "/r/w/p", rCreate
					case wUpdateP:
						op.Key, op.Kind = "/r/w/p", rUpd0
					case wDeleteP:
						op.Key, op.Kind = "/r/w/p", rDel0
					case wUpdStaleP:
						op.Key, op.Kind, op.Exp = "/r/w/p", rUpdStale, base-3
					}
					w.do(op)
					if op.OK && op.Key == "/r/w/x" && !op.Kind.isDelete() {
						xrev = op.Hdr
					}
				}
			}))
		}
		for _, t := range ths {
			vrt.Join(t)
		}
		if c.consumer != "eager" {
			vrt.Join(watcher)
		}
		if c.consumer == "lazy" && watchErr == nil {
			vrt.GoDaemon(consume)
		}
		vrt.Quiesce()
		if c.consumer == "stalled" && watchErr == nil {
			// the consumer finally reads whatever it can get, until nothing more arrives
			for round := 0; round < 20; round++ {
				n, _, cl := vrt.ChanLen(ch)
				if n == 0 {
					closed = cl
					break
				}
				evs, ok := <-ch
				if !ok {
					closed = true
					break
				}
				for _, e := range evs {
					recv = append(recv, evRec{e.Type, e.Revision, string(e.Kv.GetKey()), string(e.Kv.GetValue()), e.Kv.GetRevision()})
				}
				vrt.Quiesce()
			}
		}
		vrt.EndExplore()
		// ground truth: pre-window + window writes, filtered
		allOps = append(allOps, w.ops...)
		var E []evRec
		firstAfter := -1
		for _, e := range groundTruth(allOps) {
			if !strings.HasPrefix(e.key, c05Prefix) || (S > 0 && e.rev < S) {
				continue
			}
			E = append(E, e)
		}
		for i, e := range E {
			for _, op := range w.ops {
				if op.Hdr == e.rev && op.OK && op.Call > watchRet && watchRet >= 0 && firstAfter < 0 {
					firstAfter = i
				}
			}
		}
		if firstAfter < 0 {
			firstAfter = len(E)
		}
		outcome := "complete"
		cls := fmt.Sprintf("|start=%s|%s", c.start, c.consumer)
		switch {
		case watchErr != nil:
			outcome = "refused"
		default:
			for i := 1; i < len(recv); i++ {
				if recv[i].rev <= recv[i-1].rev {
					x.Fail("C05|not-increasing"+cls, "received %s: revisions do not strictly increase (ground truth %s)", evsString(recv), evsString(E))
				}
			}
			idx := 0
			if S == 0 && len(recv) > 0 {
				idx = -1
				for i, e := range E {
					if e.rev == recv[0].rev {
						idx = i
					}
				}
				if idx < 0 {
					x.Fail("C05|unknown-event"+cls, "received %s, first event is not in the ground truth %s", evsString(recv), evsString(E))
					idx = 0
				}
			} else if S == 0 {
				idx = len(E)
				if !closed {
					idx = firstAfter
				}
			}
			ok := idx+len(recv) <= len(E)
			for i := 0; ok && i < len(recv); i++ {
				ok = recv[i] == E[idx+i]
			}
			if !ok {
				sig := "C05|gap-or-mismatch"
				// classify: is what was received a subsequence with a hole (delivery continued past an undelivered event)?
				if isSubsequenceWithHole(recv, E) {
					sig, cls = "C05|continued-past-undelivered-event", ""
				}
				x.Fail(sig+cls, "watch from revision %d received %s (closed=%v); the matching changes are %s", int64(S)-base, evsString(recv), closed, evsString(E))
			} else {
				if S == 0 && idx > firstAfter {
					x.Fail("C05|missed-after-registration"+cls, "watch from 'now' received %s but the write at %d began after Watch had returned (ground truth %s)", evsString(recv), int64(E[firstAfter].rev)-base, evsString(E))
				}
				if !closed && idx+len(recv) != len(E) {
					x.Fail("C05|open-but-incomplete"+cls, "the stream is still open and drained at quiescence, received %s, missing the tail of %s", evsString(recv), evsString(E))
				}
			}
			if closed {
				outcome = "closed"
			}
		}
		x.Obs = fmt.Sprintf("%s recv=%d/%d", outcome, len(recv), len(E))
		w.clean = true
	}}
}

func isSubsequenceWithHole(r, e []evRec) bool {
	if len(r) == 0 {
		return false
	}
	j := 0
	hole := false
	started := false
	for _, x := range e {
		if j < len(r) && x == r[j] {
			j++
			started = true
		} else if started && j < len(r) {
			hole = true
		}
	}
	return j == len(r) && hole
}

// ---- two subscribers on one hub ----
//
// The hub fans every batch out to all subscribers in map order; the instrumenter hands that order to
// the scheduler (vrt.MapKeys), and these scenarios enumerate it (vrt.PermuteMaps).

type c05Two struct {
	prefixB  string // B's prefix (A watches c05Prefix)
	lateB    bool   // B registers inside the window, from the revision after the committed one
	consB    string // eager | stalled   (A never reads before the end)
	writers  [][]wop
	watchBuf int
	cancelA  bool // a thread cancels A's context somewhere in the window
}

func (c c05Two) name() string {
	var ws []string
	for _, w := range c.writers {
		var s []string
		for _, o := range w {
			s = append(s, wopNames[o])
		}
		ws = append(ws, strings.Join(s, ","))
	}
	n := fmt.Sprintf("C05/two-subscribers/A=stalled(%s)/B=%s(%s,late=%v)/buf=%d/%s", c05Prefix, c.consB, c.prefixB, c.lateB, c.watchBuf, strings.Join(ws, "|"))
	if c.cancelA {
		n += "/A-cancelled"
	}
	return n
}

func c05TwoConfigs(tier string) []c05Two {
	w3 := [][]wop{{wCreateX, wUpdateX, wDeleteX, wCreateX}}
	w1b := [][]wop{{wCreateX, wCreateOut, wCreateY}}
	out := []c05Two{
		{c05Prefix, false, "eager", w3, 1, false},
		{"/r/", false, "eager", w1b, 1, false}, // B watches a superset: a batch holds events A drops and B wants
		{c05Prefix, false, "eager", [][]wop{{wCreateX, wCreateY}}, 1, true},
	}
	if tier == "thorough" {
		out = append(out,
			c05Two{c05Prefix, true, "eager", w3, 1, false},
			c05Two{c05Prefix, false, "eager", w3, 1, true},
			c05Two{c05Prefix, false, "stalled", w3, 1, false},
			c05Two{"/r/w/x", false, "eager", w1b, 1, false},
			c05Two{"/r/o/", true, "eager", w1b, 1, false},
			c05Two{c05Prefix, false, "eager", [][]wop{{wCreateX, wUpdateX}, {wCreateY, wDupP}}, 2, false},
		)
	}
	return out
}

func c05TwoScenario(c c05Two) *mc.Scenario {
	// TolerateNondet: if a changed hub iterates its map in a form the instrumenter cannot order, the runtime's
	// random order shows up as divergence between re-executions; that is counted, never reported as a violation
	return &mc.Scenario{Name: c.name(), TolerateNondet: true, Body: func(x *mc.X) {
		backend.VerifSetCapacities(2, c.watchBuf, 2)
		defer backend.VerifSetCapacities(300, 10000, 100)
		vrt.PermuteMaps = true
		defer func() { vrt.PermuteMaps = false }()
		w := newWorld(hx.Mem, 8)
		defer w.close()
		committed := w.b.GetCurrentRevision()
		type sub struct {
			name, prefix string
			start        uint64
			ch           <-chan []*proto.Event
			err          error
			recv         []evRec
			closed       bool
		}
		A := &sub{name: "A", prefix: c05Prefix, start: committed + 1}
		B := &sub{name: "B", prefix: c.prefixB, start: committed + 1}
		ctx, cancel := context.WithCancel(bg)
		defer cancel()
		ctxA, cancelA := context.WithCancel(bg)
		defer cancelA()
		register := func(s *sub) {
			if s == A {
				s.ch, s.err = w.b.Watch(ctxA, s.prefix, s.start)
				return
			}
			s.ch, s.err = w.b.Watch(ctx, s.prefix, s.start)
		}
		take := func(s *sub, evs []*proto.Event) {
			for _, e := range evs {
				s.recv = append(s.recv, evRec{e.Type, e.Revision, string(e.Kv.GetKey()), string(e.Kv.GetValue()), e.Kv.GetRevision()})
			}
		}
		consume := func(s *sub) {
			for {
				vrt.Recv(s.ch)
				evs, ok := <-s.ch
				vrt.Recvd()
				if !ok {
					s.closed = true
					return
				}
				take(s, evs)
			}
		}
		register(A)
		if !c.lateB {
			register(B)
		}
		vrt.Quiesce()
		vrt.BeginExplore()
		vrt.Go(func() {
			if c.lateB {
				register(B)
			}
			if B.err == nil && c.consB == "eager" {
				consume(B)
			}
		})
		var ths []*vrt.Thread
		if c.cancelA {
			ths = append(ths, vrt.Go(func() { cancelA() }))
		}
		for ti, ops := range c.writers {
			ti, ops := ti, ops
			ths = append(ths, vrt.Go(func() {
				xrev := uint64(0)
				for oi, o := range ops {
					op := &clientOp{Val: fmt.Sprintf("w%d.%d", ti, oi)}
					switch o {
					case wCreateX:
						op.Key, op.Kind = "/r/w/x", rCreate
					case wUpdateX:
						op.Key, op.Kind, op.Exp = "/r/w/x", rUpdOK, xrev
						if xrev == 0 {
							op.Exp = base
						}
					case wDeleteX:
						op.Key, op.Kind = "/r/w/x", rDel0
					case wCreateY:
						op.Key, op.Kind = "/r/w/y", rCreate
					case wCreateOut:
						op.Key, op.Kind = "/r/o/z", rCreate
					case wDupP:
						op.Key, op.Kind = "/r/w/y", rCreate
					}
					w.do(op)
					if op.OK && op.Key == "/r/w/x" && !op.Kind.isDelete() {
						xrev = op.Hdr
					}
				}
			}))
		}
		for _, t := range ths {
			vrt.Join(t)
		}
		vrt.Quiesce()
		drain := func(s *sub) {
			for round := 0; round < 20 && s.err == nil && s.ch != nil; round++ {
				n, _, cl := vrt.ChanLen(s.ch)
				if n == 0 {
					s.closed = s.closed || cl
					return
				}
				evs, ok := <-s.ch
				if !ok {
					s.closed = true
					return
				}
				take(s, evs)
				vrt.Quiesce()
			}
		}
		drain(A)
		if c.consB != "eager" {
			drain(B)
		}
		vrt.EndExplore()
		truth := groundTruth(w.ops)
		var obs []string
		for _, s := range []*sub{A, B} {
			cls := "|two-subscribers|" + s.name
			if s.err != nil || s.ch == nil {
				if s.name == "A" || !c.lateB {
					x.Fail("C05|refused-at-the-newest-revision"+cls, "watch from the revision after the committed one was refused: %v", s.err)
				}
				obs = append(obs, s.name+":refused")
				continue
			}
			var E []evRec
			for _, e := range truth {
				if strings.HasPrefix(e.key, s.prefix) && e.rev >= s.start {
					E = append(E, e)
				}
			}
			for i := 1; i < len(s.recv); i++ {
				if s.recv[i].rev <= s.recv[i-1].rev {
					x.Fail("C05|not-increasing"+cls, "%s received %s: revisions do not strictly increase (ground truth %s)", s.name, evsString(s.recv), evsString(E))
				}
			}
			ok := len(s.recv) <= len(E)
			for i := 0; ok && i < len(s.recv); i++ {
				ok = s.recv[i] == E[i]
			}
			switch {
			case !ok && isSubsequenceWithHole(s.recv, E):
				x.Fail("C05|continued-past-undelivered-event"+cls, "%s (prefix %s, from revision %d) received %s (closed=%v); the matching changes are %s", s.name, s.prefix, int64(s.start)-base, evsString(s.recv), s.closed, evsString(E))
			case !ok:
				x.Fail("C05|gap-or-mismatch"+cls, "%s (prefix %s, from revision %d) received %s (closed=%v); the matching changes are %s", s.name, s.prefix, int64(s.start)-base, evsString(s.recv), s.closed, evsString(E))
			case s == A && c.cancelA && !s.closed:
				x.Fail("C05|cancelled-watch-still-open"+cls, "A's context was cancelled, everything is quiescent and drained, but its stream is still open (received %s)", evsString(s.recv))
			case !s.closed && len(s.recv) != len(E):
				x.Fail("C05|open-but-incomplete"+cls, "%s: the stream is still open and drained at quiescence, received %s, missing the tail of %s", s.name, evsString(s.recv), evsString(E))
			}
			st := "complete"
			if s.closed {
				st = "closed"
			}
			obs = append(obs, fmt.Sprintf("%s:%s %d/%d", s.name, st, len(s.recv), len(E)))
		}
		x.Obs = strings.Join(obs, " ")
		w.clean = true
	}}
}

func c05Configs(tier string) []c05Cfg {
	var out []c05Cfg
	w1 := [][]wop{{wCreateX, wUpdateX, wDeleteX}}
	w1b := [][]wop{{wCreateX, wCreateOut, wCreateY}}
	w2 := [][]wop{{wCreateX, wUpdateX}, {wCreateY, wDupP}}
	wfail := [][]wop{{wDupP, wUpdStaleP, wCreateX, wUpdateP}}
	w3 := [][]wop{{wCreateX, wUpdateX, wDeleteX, wCreateX}}
	starts := []string{"zero", "below", "oldest", "inside", "newest", "newest+1", "far"}
	// registration races: every start kind against one writer, small and large cache, eager consumer
	for _, cache := range []int{1, 3} {
		for _, pre := range []int{0, 2, 4} {
			for _, st := range starts {
				if pre == 0 && (st == "below" || st == "inside" || st == "oldest") {
					continue
				}
				out = append(out, c05Cfg{cache, pre, st, "eager", w1, 2, false})
			}
		}
	}
	// cached revisions with gaps (failed writes in between)
	for _, cache := range []int{3, 8} {
		for _, st := range []string{"oldest", "inside-gap", "inside-2nd", "newest"} {
			out = append(out, c05Cfg{cache, 4, st, "eager", w1b, 2, true})
		}
	}
	// consumer speeds with a tiny subscriber buffer (overflow)
	for _, cons := range []string{"eager", "lazy", "stalled"} {
		for _, st := range []string{"zero", "newest+1"} {
			out = append(out, c05Cfg{8, 1, st, cons, w3, 1, false})
			out = append(out, c05Cfg{8, 1, st, cons, w1b, 1, false})
			out = append(out, c05Cfg{8, 1, st, cons, wfail, 1, false})
		}
	}
	out = append(out, c05Cfg{3, 2, "oldest", "stalled", w3, 1, false}, c05Cfg{3, 2, "inside", "lazy", w3, 1, false})
	// two writers
	for _, st := range []string{"zero", "newest", "newest+1"} {
		out = append(out, c05Cfg{3, 2, st, "eager", w2, 2, false})
	}
	if tier == "thorough" {
		for _, cache := range []int{2, 8} {
			for _, pre := range []int{1, 3, 4} {
				for _, st := range starts {
					for _, cons := range []string{"eager", "stalled"} {
						out = append(out, c05Cfg{cache, pre, st, cons, w3, 1, false})
					}
				}
			}
		}
		for _, st := range starts {
			out = append(out, c05Cfg{2, 3, st, "lazy", w2, 1, false})
		}
	}
	return out
}

func init() {
	mc.Register(&mc.Property{
		ID:     "C05",
		Level:  "model_checking",
		Rule:   "every schedule (preemption-bounded DFS with happens-before state cache) of one watcher (register, then consume eagerly / lazily / not until the end), 1-2 writers (successful and failing writes on keys inside and outside the watched prefix) and the real sequencer, fan-out hub, per-watch filter goroutine and context watcher; x event-cache sizes {1,2,3,8} incl. wrap-around x 0-4 events before the window x 7 start revisions relative to the cached window; capacities shrunk (batch 2, subscriber buffer 1-2, result channel 2) so that a stalled consumer overflows after three batches; oracle: the received sequence is a gap-free, duplicate-free prefix of the ground truth (for start 0: a contiguous run starting no later than the first write begun after registration), complete if the stream is still open at quiescence; plus two subscribers on one hub (one never reading, one eager or stalled, same or different prefixes, the second registering before or inside the window) with the hub's fan-out order enumerated, each judged by the same oracle",
		Assume: []string{"capacities shrunk: eventBatchSize=2, watchBuffer=1|2, resultChanLength=2, watchersChanCapacity=100", "one subscriber per hub, except in the two-subscriber scenarios, where the hub's map iteration order is an enumerated decision of the scheduler", "in-memory engine"},
		Scenarios: func(tier string) []*mc.Scenario {
			var out []*mc.Scenario
			for _, c := range c05Configs(tier) {
				out = append(out, c05Scenario(c))
			}
			for _, c := range c05TwoConfigs(tier) {
				out = append(out, c05TwoScenario(c))
			}
			return out
		},
		Drive: func(c *mc.Ctx) {
			cfgs := c05Configs(c.Tier)
			mc.DriveSchedules(c, func(i int, sc *mc.Scenario) mc.SchedPlan {
				if i >= len(cfgs) {
					p := mc.SchedPlan{Class: "two-subscribers", Bounds: []int{0, 1}, Shard: true}
					if c.Tier == "thorough" {
						p.Bounds = []int{0, 1, 2}
					}
					return p
				}
				p := mc.SchedPlan{Class: cfgs[i].consumer + fmt.Sprintf("/writers=%d", len(cfgs[i].writers)), Bounds: []int{0, 1}, Shard: true}
				if c.Tier == "thorough" {
					p.Bounds = []int{0, 1, 2}
				} else if len(cfgs[i].writers) > 1 {
					p.Bounds = []int{0}
				}
				return p
			})
		},
	})
}
