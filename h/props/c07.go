package props

import (
	"fmt"

	proto "github.com/kubewharf/kubebrain-client/api/v2rpc"

	"github.com/kubewharf/kubebrain/pkg/storage"
	"github.com/kubewharf/kubebrain/zz_verif/h/hx"
	"github.com/kubewharf/kubebrain/zz_verif/h/mc"
	"github.com/kubewharf/kubebrain/zz_verif/rt/vrt"
)

// C07 — compaction never changes what a read at or above the compaction revision sees.

const c07MaxDels = 5

// c07 alphabet = compaction alphabet + faulted compactions (at the committed revision and at every
// named revision): deletion i fails (plain / failed-condition error), or the compactor dies after
// i deletions.
type c07Op struct {
	cmpOp
	faultAt int // -1 none
	variant int // 0 plain error on deletion i, 1 failed-condition error on deletion i, 2 compactor dies after i deletions
}

func c07Alphabet(cfg cmpCfg, depth int) []c07Op {
	var out []c07Op
	for _, o := range cmpAlphabet(cfg, depth) {
		out = append(out, c07Op{o, -1, 0})
	}
	for _, o := range cmpAlphabet(cfg, depth) {
		if !o.compact || o.rev < 0 {
			continue
		}
		for i := 0; i < c07MaxDels; i++ {
			for v := 0; v < 3; v++ {
				out = append(out, c07Op{o, i, v})
			}
		}
	}
	return out
}

func c07Run(tier string) func(cfgIdx int, hist []int) *mc.SeqOut {
	return func(cfgIdx int, hist []int) *mc.SeqOut {
		cfg := cmpConfigs[cfgIdx]
		alpha := c07Alphabet(cfg, cmpDepth(cfg, tier))
		out := &mc.SeqOut{}
		w := newCmpWorld(cfg, "C07", out)
		defer w.close()
		w.writeOutside()
		faulted := 0
		for _, a := range hist {
			o := alpha[a]
			if o.faultAt >= 0 {
				start := w.kv.Dels()
				o := o
				w.kv.DelFault = func(n int, cur bool, key []byte) error {
					i := n - start
					switch {
					case o.variant == 2 && i >= o.faultAt:
						return hx.ErrInjected
					case o.variant == 0 && i == o.faultAt:
						return hx.ErrInjected
					case o.variant == 1 && i == o.faultAt:
						return storage.ErrCASFailed
					}
					return nil
				}
				if !w.step(o.cmpOp) {
					return out
				}
				if w.kv.Dels()-start > o.faultAt {
					faulted++
				}
				w.kv.DelFault = nil
			} else if !w.step(o.cmpOp) {
				return out
			}
			w.checkReads()
			if len(out.Viols) > 0 {
				return out
			}
		}
		out.Key = w.canonKey()
		out.Obs = fmt.Sprintf("floor=%d committed=%d faults-hit=%d", int64(w.m.floor)-base, int64(w.b.GetCurrentRevision())-base, faulted)
		w.clean = true
		return out
	}
}

// ---------------------------------------------------------------------------------------------
// schedules: a compactor against writers that touch the keys being compacted, and a reader

type c07Sched struct {
	engine  string
	writers [][]reqKind // requests on /r/a (shared key), each thread
	second  bool        // one more writer re-creating /r/b (deleted initially)
	reader  bool
}

func (c c07Sched) name() string {
	return fmt.Sprintf("C07/sched/%s/writers=%v/second=%v/reader=%v", c.engine, c.writers, c.second, c.reader)
}

func c07Scheds(tier string) []c07Sched {
	out := []c07Sched{
		{hx.Mem, [][]reqKind{{rUpdOK}}, false, true},
		{hx.Mem, [][]reqKind{{rDelOK}}, false, true},
		{hx.Mem, [][]reqKind{{rDelOK, rCreate}}, false, false},
		{hx.Mem, [][]reqKind{{rUpdOK}}, true, false},
		{hx.Mem, nil, true, true},
		{hx.Mem, nil, true, false}, // compactor against a re-creation of a key whose tombstone it is compacting
	}
	if tier == "thorough" {
		out = append(out,
			c07Sched{hx.Mem, [][]reqKind{{rUpdOK}, {rDel0}}, false, false},
			c07Sched{hx.Mem, [][]reqKind{{rDelOK, rCreate}}, true, true},
			c07Sched{hx.Badger, [][]reqKind{{rUpdOK}}, true, false},
			c07Sched{hx.TiKV, [][]reqKind{{rDelOK, rCreate}}, false, false},
		)
	}
	return out
}

func c07SchedScenario(c c07Sched) *mc.Scenario {
	return &mc.Scenario{Name: c.name(), TolerateNondet: c.engine != hx.Mem, Body: func(x *mc.X) {
		so := &mc.SeqOut{}
		cfg := cmpCfg{engine: c.engine, keys: []string{"/r/a", "/r/b"}}
		w := newCmpWorld(cfg, "C07", so)
		w.kv.Yield = c.engine != hx.Mem
		defer w.close()
		// initial: /r/a live with three versions, /r/b created then deleted (tombstone below the compaction revision)
		for _, o := range []seqOp{{0, rCreate, "a1"}, {0, rUpdOK, "a2"}, {1, rCreate, "b1"}, {0, rUpdOK, "a3"}, {1, rDelOK, ""}} {
			if !w.applyOp(so, w.m, "C07", cfg.keys[o.key], o) {
				panic("initial history failed: " + so.Viols[0].Detail)
			}
		}
		R := w.b.GetCurrentRevision()
		w.ops = nil
		type rd struct {
			rev uint64
			kvs []*proto.KeyValue
			err error
		}
		var reads []rd
		vrt.BeginExplore()
		var ths []*vrt.Thread
		ths = append(ths, vrt.Go(func() {
			if _, err := w.b.Compact(bg, R); err != nil {
				x.Fail("C07|compact-error|"+c.engine, "%v", err)
			}
		}))
		for ti, reqs := range c.writers {
			ti, reqs := ti, reqs
			ths = append(ths, vrt.Go(func() {
				exp := uint64(base + 4) // /r/a is live at a3 = base+4
				for ri, k := range reqs {
					op := &clientOp{Key: "/r/a", Kind: k, Exp: exp, Val: fmt.Sprintf("w%d.%d", ti, ri)}
					if k == rDel0 || k == rCreate {
						op.Exp = 0
					}
					w.do(op)
				}
			}))
		}
		if c.second {
			ths = append(ths, vrt.Go(func() { w.do(&clientOp{Key: "/r/b", Kind: rCreate, Val: "b2"}) }))
		}
		if c.reader {
			ths = append(ths, vrt.Go(func() {
				for _, r := range []uint64{R, 0} {
					l, err := w.b.List(bg, &proto.RangeRequest{Key: []byte("/r/"), End: []byte("/r0"), Revision: r})
					rr := rd{rev: r, err: err}
					if err == nil {
						rr.kvs = l.Kvs
						if r == 0 {
							rr.rev = l.Header.GetRevision()
						}
					}
					reads = append(reads, rr)
				}
			}))
		}
		for _, t := range ths {
			vrt.Join(t)
		}
		vrt.Quiesce()
		vrt.EndExplore()
		w.attribute()
		// model = successful writes in commit order
		var succ []*clientOp
		for _, op := range w.ops {
			if op.OK {
				succ = append(succ, op)
			}
		}
		for i := range succ {
			for j := i + 1; j < len(succ); j++ {
				if succ[j].CommitStep < succ[i].CommitStep {
					succ[i], succ[j] = succ[j], succ[i]
				}
			}
		}
		for _, op := range succ {
			w.m.apply(op.Kind, op.Key, op.Val, op.Hdr)
		}
		w.m.floor = R
		w.checkReads()
		for _, r := range reads {
			if r.err != nil || r.rev < R {
				continue
			}
			want, _ := w.m.list("/r/", "/r0", r.rev, 0)
			if !sameKvs(r.kvs, want) {
				so.Viols = append(so.Viols, mc.Violation{Sig: "C07|concurrent-read-changed|" + c.engine, Detail: fmt.Sprintf("a range read at revision %d running concurrently with compaction at %d returned %s, the snapshot holds %s", int64(r.rev)-base, int64(R)-base, kvsString(r.kvs), mkvString(want))})
			}
		}
		// every key stays writable with normal semantics
		for i, k := range cfg.keys {
			l, _ := w.m.latest(k)
			o := seqOp{i, rCreate, "after"}
			if w.m.live(k) {
				o = seqOp{i, rUpdOK, "after"}
			}
			_ = l
			w.applyOp(so, w.m, "C07", k, o)
		}
		w.checkReads()
		x.Viols = append(x.Viols, so.Viols...)
		var outs []string
		for _, op := range w.ops {
			outs = append(outs, fmt.Sprintf("%s:%v", reqNames[op.Kind], op.OK))
		}
		x.Obs = fmt.Sprint(outs, " recs=", len(w.dump()))
		w.clean = true
	}}
}

func init() {
	mc.Register(&mc.Property{
		ID:    "C07",
		Level: "fault_enumeration",
		Rule: "(a,b,d) explicit-state BFS over histories of writes and compactions in which every compaction is also run with deletion i failing (plain / failed-condition error) and with the compactor dying after i deletions, for every i below 5, for every compaction revision, under 3 prefix / skipped-prefix configurations; after every step every point and range read at every revision at or above the floor is compared with the versioned-map model, later writes are checked against the model, records outside the ranges are compared byte for byte; " +
			"(c) every schedule (preemption-bounded) of a compactor thread against writers re-creating / updating / deleting the keys being compacted and a reader; a case is distinct by its canonical state (model + storage dump) and non-trivial when a fault position was actually reached or a schedule produced a new outcome",
		Assume: []string{"'compactor dies after i deletions' is modelled as every later deletion failing (the compaction record is written before the first deletion)", "expiry is excluded (engines report native TTL or keys avoid the events pattern)"},
		Exec:   func(j *mc.Job) *mc.JobResult { return mc.SeqExec(j, c07Run(j.Tier)) },
		Scenarios: func(tier string) []*mc.Scenario {
			var out []*mc.Scenario
			for _, c := range c07Scheds(tier) {
				out = append(out, c07SchedScenario(c))
			}
			return out
		},
		Drive: func(c *mc.Ctx) {
			cfgs := []int{0, 1, 2}
			if c.Tier == "thorough" {
				cfgs = []int{0, 1, 2, 3, 4}
			}
			stats := map[string]mc.SeqStats{}
			total := mc.SeqStats{}
			mc.SeqFullDepth = 1
			if c.Tier == "thorough" {
				mc.SeqFullDepth = 2
			}
			// the schedule scenarios first (seconds), the history search after them
			full := c.Deadline
			c.Deadline = c.Start.Add(full.Sub(c.Start) / 3)
			scheds := c07Scheds(c.Tier)
			mc.DriveSchedules(c, func(i int, sc *mc.Scenario) mc.SchedPlan {
				p := mc.SchedPlan{Class: "schedules/" + scheds[i].engine, Bounds: []int{0}, Shard: true}
				if c.Tier == "thorough" {
					p.Bounds = []int{0, 1}
				}
				if len(scheds[i].writers) == 0 && !scheds[i].reader {
					p.Class += "/compactor-vs-recreate"
					p.Bounds = []int{0, 1}
					if c.Tier == "thorough" {
						p.Bounds = []int{0, 1, 2}
					}
				}
				return p
			})
			c.Deadline = full
			for _, i := range cfgs {
				cfg := cmpConfigs[i]
				d := cmpDepth(cfg, c.Tier) - 1
				st := mc.DriveSeq(c, "bfs", i, len(c07Alphabet(cfg, cmpDepth(cfg, c.Tier))), d)
				stats[fmt.Sprintf("%d:%s/%v/skipped=%v", i, cfg.engine, cfg.keys, cfg.skipped)] = st
				total.States += st.States
				total.Transitions += st.Transitions
				total.Evals += st.Evals
			}
			c.Cov["states"] = total.States + c.Agg.States
			c.Cov["histories_states"] = total.States
			c.Cov["histories_transitions"] = total.Transitions
			c.Cov["oracle_evaluations"] = total.Evals
			c.Cov["per_configuration"] = stats
			c.Cov["distinct_nontrivial"] = total.States + len(c.Agg.Outcomes)
		},
	})
}
