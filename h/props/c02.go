package props

import (
	"fmt"

	proto "github.com/kubewharf/kubebrain-client/api/v2rpc"

	"github.com/kubewharf/kubebrain/pkg/backend"
	"github.com/kubewharf/kubebrain/zz_verif/h/hx"
	"github.com/kubewharf/kubebrain/zz_verif/h/mc"
	"github.com/kubewharf/kubebrain/zz_verif/rt/vrt"
)

// C02 — revisions are unique, agree with real time, increase along a key's history, and a response
// header is never below the data it carries.

type c02Cfg struct {
	w      writeCfg
	reader string   // "", "zero", "old", "cur", "cur+1", "cur+3"
	other  []string // additional writers on their own keys (pure allocation races)
}

func (c c02Cfg) name() string {
	n := c.w.name()
	if c.reader != "" {
		n += "/reader=" + c.reader
	}
	if len(c.other) > 0 {
		n += fmt.Sprintf("/others=%d", len(c.other))
	}
	return n
}

func minMax(v []uint64) (uint64, uint64) {
	mn, mx := v[0], v[0]
	for _, x := range v {
		if x < mn {
			mn = x
		}
		if x > mx {
			mx = x
		}
	}
	return mn, mx
}

// checkRevisions is the C02 oracle over all recorded client operations.
func (w *world) checkRevisions(x *mc.X) {
	owner := map[uint64]*clientOp{}
	for _, op := range w.ops {
		for _, r := range op.Revs {
			if o, dup := owner[r]; dup && o != op {
				x.Fail("C02|duplicate-revision|"+w.engine, "revision %d stamped on two attempts: %s by %s and %s by %s", r, reqNames[o.Kind], o.Thread, reqNames[op.Kind], op.Thread)
			}
			owner[r] = op
		}
		if op.OK && op.Hdr != 0 {
			if o, dup := owner[op.Hdr]; dup && o != op {
				x.Fail("C02|duplicate-revision|"+w.engine, "revision %d reported by a successful %s was stamped on another attempt", op.Hdr, reqNames[op.Kind])
			}
		}
	}
	for _, a := range w.ops {
		for _, b := range w.ops {
			if a == b || !a.done || !b.done || len(a.Revs) == 0 || len(b.Revs) == 0 || a.Ret >= b.Call {
				continue
			}
			_, amax := minMax(a.Revs)
			bmin, _ := minMax(b.Revs)
			if amax >= bmin {
				x.Fail("C02|real-time-order|"+w.engine, "%s by %s returned (step %d) before %s by %s was called (step %d) but got revision %d >= %d", reqNames[a.Kind], a.Thread, a.Ret, reqNames[b.Kind], b.Thread, b.Call, amax, bmin)
			}
		}
	}
	// header >= data, writes
	for _, op := range w.ops {
		if op.done && op.Err == nil && op.Kv != nil && op.Hdr < op.Kv.Revision {
			x.Fail("C02|header-below-data|"+w.engine+"|"+reqNames[op.Kind], "%s answered with header revision %d but carries a key-value at revision %d", reqNames[op.Kind], op.Hdr, op.Kv.Revision)
		}
	}
	for _, r := range w.reads {
		if r.err != nil {
			continue
		}
		for _, kv := range r.kvs {
			if kv != nil && r.hdr < kv.Revision {
				x.Fail("C02|header-below-data|"+w.engine+"|"+r.what, "%s answered with header revision %d but carries %s at revision %d", r.what, r.hdr, kv.Key, kv.Revision)
			}
		}
	}
}

// monotone: along the successes on one key, in commit order, revisions strictly increase.
func (w *world) checkMonotone(x *mc.X, key string) {
	var last *clientOp
	var succ []*clientOp
	for _, op := range w.ops {
		if op.Key == key && op.OK && op.CommitRev != 0 {
			succ = append(succ, op)
		}
	}
	for i := 0; i < len(succ); i++ {
		for j := i + 1; j < len(succ); j++ {
			if succ[j].CommitStep < succ[i].CommitStep {
				succ[i], succ[j] = succ[j], succ[i]
			}
		}
	}
	for _, op := range succ {
		if last != nil && op.CommitRev <= last.CommitRev {
			x.Fail("C02|key-history-order|"+w.engine, "on %s, %s committed revision %d after %s had committed revision %d", key, reqNames[op.Kind], op.CommitRev, reqNames[last.Kind], last.CommitRev)
		}
		last = op
	}
}

func (w *world) read(what string, key string, rev uint64, list bool) {
	if list {
		r, err := w.b.List(bg, &proto.RangeRequest{Key: []byte("/r/"), End: []byte("/r0"), Revision: rev})
		rr := readRec{what: what, err: err}
		if err == nil {
			rr.hdr, rr.kvs = r.Header.GetRevision(), r.Kvs
		}
		w.reads = append(w.reads, rr)
		return
	}
	r, err := w.b.Get(bg, &proto.GetRequest{Key: []byte(key), Revision: rev})
	rr := readRec{what: what, err: err}
	if err == nil {
		rr.hdr = r.Header.GetRevision()
		if r.Kv != nil {
			rr.kvs = []*proto.KeyValue{r.Kv}
		}
	}
	w.reads = append(w.reads, rr)
}

func c02Scenario(c c02Cfg) *mc.Scenario {
	return &mc.Scenario{Name: c.name(), TolerateNondet: c.w.engine != hx.Mem, Body: func(x *mc.X) {
		w := newWorld(c.w.engine, 16)
		defer w.close()
		st := w.buildInit(c.w.init, sharedKey)
		vrt.BeginExplore()
		var ths []*vrt.Thread
		for ti, reqs := range c.w.threads {
			ti, reqs := ti, reqs
			ths = append(ths, vrt.Go(func() {
				for ri, k := range reqs {
					w.do(&clientOp{Key: sharedKey, Kind: k, Exp: st.expFor(k), Val: fmt.Sprintf("t%d.%d", ti, ri)})
				}
			}))
		}
		if len(c.other) > 0 {
			// one more client writing its own keys one after the other (pure allocation races)
			ths = append(ths, vrt.Go(func() {
				for i, k := range c.other {
					w.do(&clientOp{Key: k, Kind: rCreate, Val: fmt.Sprintf("o%d", i)})
				}
			}))
		}
		if c.reader != "" {
			ths = append(ths, vrt.Go(func() {
				var rev uint64
				cur := w.b.GetCurrentRevision()
				switch c.reader {
				case "zero":
					rev = 0
				case "old":
					rev = st.stale
				case "cur":
					rev = cur
				case "cur+1":
					rev = cur + 1
				case "cur+3":
					rev = cur + 3
				}
				w.read("get@"+c.reader, sharedKey, rev, false)
				w.read("list@"+c.reader, sharedKey, rev, true)
			}))
		}
		for _, t := range ths {
			vrt.Join(t)
		}
		vrt.Quiesce()
		vrt.EndExplore()
		w.attribute()
		w.checkRevisions(x)
		w.checkMonotone(x, sharedKey)
		final := w.checkChainFor(x, "C02", st)
		o := w.obs(final)
		for _, r := range w.reads {
			o += fmt.Sprintf(" %s:%d", r.what, len(r.kvs))
		}
		x.Obs = o
		w.clean = true
	}}
}

func c02Configs(tier string) []c02Cfg {
	var out []c02Cfg
	pairs := [][2]reqKind{{rCreate, rCreate}, {rCreate, rUpd0}, {rUpdOK, rUpdOK}, {rUpdOK, rDelOK}, {rDelOK, rDelOK}, {rDel0, rUpdOK}, {rDel0, rDel0}, {rUpdStale, rUpdOK}, {rDelStale, rUpdOK}, {rCreate, rUpdOK}, {rCreate, rDel0}}
	for _, init := range allInits {
		for _, p := range pairs {
			out = append(out, c02Cfg{w: writeCfg{hx.Mem, init, [][]reqKind{{p[0]}, {p[1]}}, "C02"}})
		}
	}
	// readers racing with one or two writers
	for _, init := range []string{"live", "deleted"} {
		for _, rd := range []string{"zero", "old", "cur", "cur+1", "cur+3"} {
			for _, p := range [][]reqKind{{rUpdOK}, {rCreate}, {rDelOK}} {
				if !canSucceed(init, p[0]) {
					continue
				}
				out = append(out, c02Cfg{w: writeCfg{hx.Mem, init, [][]reqKind{p}, "C02"}, reader: rd})
			}
		}
	}
	// pure allocation races: writers on different keys
	out = append(out, c02Cfg{w: writeCfg{hx.Mem, "none", [][]reqKind{{rCreate}}, "C02"}, other: []string{"/r/b", "/r/c"}})
	out = append(out, c02Cfg{w: writeCfg{hx.Mem, "live", [][]reqKind{{rUpdOK}}, "C02"}, other: []string{"/r/b"}})
	if tier == "thorough" {
		for _, eng := range []string{hx.Badger, hx.TiKV} {
			for _, init := range []string{"none", "live"} {
				for _, p := range pairs[:6] {
					out = append(out, c02Cfg{w: writeCfg{eng, init, [][]reqKind{{p[0]}, {p[1]}}, "C02"}})
				}
			}
			out = append(out, c02Cfg{w: writeCfg{eng, "live", [][]reqKind{{rUpdOK}}, "C02"}, reader: "cur+1"})
		}
		for _, init := range []string{"live", "none"} {
			for _, rd := range []string{"zero", "cur", "cur+1"} {
				out = append(out, c02Cfg{w: writeCfg{hx.Mem, init, [][]reqKind{{rUpdOK}, {rCreate}}, "C02"}, reader: rd})
			}
		}
	}
	return out
}

func init() {
	mc.Register(&mc.Property{
		ID:    "C02",
		Level: "model_checking",
		Rule: "every schedule (preemption-bounded DFS) of writers on one shared key, writers on distinct keys and a reader at 5 kinds of read revision, on the real backend; " +
			"per execution: stamps of all attempts (engine batches + notification slots) pairwise distinct, real-time order (step indexes) implies revision order, commit order on a key implies revision order, header >= data in every response",
		Assume: []string{
			"an attempt's stamp is observed where the code uses it: the version record it tries to write and the notification it publishes",
			"scheduling points as for C01; engine calls of badger / tikv-mock are atomic steps",
		},
		Scenarios: func(tier string) []*mc.Scenario {
			var out []*mc.Scenario
			for _, c := range c02Configs(tier) {
				out = append(out, c02Scenario(c))
			}
			return out
		},
		Drive: func(c *mc.Ctx) {
			cfgs := c02Configs(c.Tier)
			mc.DriveSchedules(c, func(i int, sc *mc.Scenario) mc.SchedPlan {
				cfg := cfgs[i]
				p := mc.SchedPlan{Class: cfg.w.engine + "/writers"}
				if cfg.reader != "" {
					p.Class = cfg.w.engine + "/with-reader"
				}
				if len(cfg.other) > 0 {
					p.Class = cfg.w.engine + "/distinct-keys"
				}
				n := len(cfg.w.threads)
				if len(cfg.other) > 0 {
					n++
				}
				if cfg.reader != "" {
					n++
				}
				p.Bounds = []int{0, 1}
				if c.Tier == "thorough" {
					p.Bounds = []int{0, 1, 2}
					p.Shard = true
					if n <= 2 && cfg.w.engine == hx.Mem {
						p.Bounds = []int{0, 1, 2, 3}
					}
				} else if (n <= 2 || len(cfg.other) > 0) && cfg.w.engine == hx.Mem {
					// allocation races need two preemptions (allocator read, other allocation, allocator write)
					p.Bounds = []int{0, 1, 2}
					p.Shard = true
				}
				return p
			})
		},
	})
}

var _ = backend.VerifPeek
