package props

import (
	"fmt"
	"strings"

	proto "github.com/kubewharf/kubebrain-client/api/v2rpc"

	"github.com/kubewharf/kubebrain/zz_verif/h/hx"
	"github.com/kubewharf/kubebrain/zz_verif/h/mc"
	"github.com/kubewharf/kubebrain/zz_verif/rt/vrt"
)

// C03 — a read at a revision returns exactly the MVCC snapshot at that revision.

var c03Keys = []string{"/r/a", "/r/a/b", "/r/a-b", "/r/ab"}
var c03Bounds = []string{"/r/", "/r/a", "/r/a-", "/r/a/", "/r/a0", "/r/ab", "/r0"}
var c03Vals = []string{"v1", "v2", "tombstone"}

// one operation of the alphabet
type seqOp struct {
	key  int // index into the key set of the configuration
	kind reqKind
	val  string
}

func (o seqOp) String() string { return fmt.Sprintf("%s(k%d,%s)", reqNames[o.kind], o.key, o.val) }

func c03Alphabet(nkeys int) []seqOp {
	var out []seqOp
	for k := 0; k < nkeys; k++ {
		for _, v := range c03Vals {
			out = append(out, seqOp{k, rCreate, v})
		}
		for _, v := range c03Vals {
			out = append(out, seqOp{k, rUpdOK, v})
		}
		out = append(out, seqOp{k, rUpdStale, "v1"}, seqOp{k, rDelOK, ""}, seqOp{k, rDelStale, ""}, seqOp{k, rDel0, ""})
	}
	return out
}

// c03 configurations: engine x key subset
type c03Cfg struct {
	engine string
	keys   []string
}

func c03Configs() []c03Cfg {
	var out []c03Cfg
	for i := 0; i < len(c03Keys); i++ {
		for j := i + 1; j < len(c03Keys); j++ {
			out = append(out, c03Cfg{hx.Mem, []string{c03Keys[i], c03Keys[j]}})
		}
	}
	out = append(out, c03Cfg{hx.Mem, c03Keys}) // 6: all four keys
	out = append(out, c03Cfg{hx.Badger, []string{"/r/a", "/r/a/b"}}, c03Cfg{hx.TiKV, []string{"/r/a", "/r/a-b"}})
	return out
}

// applyOp runs one operation of a history against the implementation and the model and compares
// the outcome; it returns false when the implementation disagreed (already reported).
func (w *world) applyOp(x *mc.SeqOut, m *mvcc, prop string, key string, o seqOp) bool {
	exp := uint64(0)
	l, had := m.latest(key)
	switch o.kind {
	case rUpdOK, rDelOK:
		exp = l.rev
		if !had {
			exp = base // nothing to name: any revision is wrong
		}
	case rUpdStale, rDelStale:
		exp = base - 1
		if vs := m.keys[key]; len(vs) >= 2 {
			exp = vs[len(vs)-2].rev
		}
	}
	want := m.expectWrite(o.kind, key, exp)
	op := &clientOp{Key: key, Kind: o.kind, Exp: exp, Val: o.val}
	w.do(op)
	vrt.Quiesce()
	tomb := o.val == "tombstone" || w.tombstoneTouched(m, key)
	cls := ""
	if tomb {
		cls = "|value-is-deletion-marker"
	}
	if op.Err != nil {
		// an error is an implementation-only outcome the model does not define: it must be a no-op
		// (which the following read-back verifies); whether engines may differ here is C12's subject
		if want {
			x.Viols = append(x.Viols, mc.Violation{Sig: prop + "|write-error|" + w.engine + "|" + reqNames[o.kind] + cls, Detail: fmt.Sprintf("%v on %s (model: %v) must succeed but returned error %v", o, key, m.keys[key], op.Err)})
			return false
		}
		return true
	}
	if op.OK != want {
		x.Viols = append(x.Viols, mc.Violation{Sig: prop + "|write-outcome|" + w.engine + "|" + reqNames[o.kind] + cls, Detail: fmt.Sprintf("%v on %s expecting revision %d: implementation says succeeded=%v, model says %v (model versions %v)", o, key, exp, op.OK, want, m.keys[key])})
		return false
	}
	if op.OK {
		if op.Hdr <= m.maxRev {
			x.Viols = append(x.Viols, mc.Violation{Sig: prop + "|revision-not-increasing|" + w.engine, Detail: fmt.Sprintf("%v got revision %d, not above %d", o, op.Hdr, m.maxRev)})
			return false
		}
		m.apply(o.kind, key, o.val, op.Hdr)
	}
	return true
}

// tombstoneTouched: does key have (or had) a live version whose value equals the deletion marker?
func (w *world) tombstoneTouched(m *mvcc, key string) bool {
	for _, v := range m.keys[key] {
		if !v.deleted && v.val == "tombstone" {
			return true
		}
	}
	return false
}

func kvsString(kvs []*proto.KeyValue) string {
	var s []string
	for _, kv := range kvs {
		s = append(s, fmt.Sprintf("%s=%s@%d", kv.Key, kv.Value, int64(kv.Revision)-base))
	}
	return "[" + strings.Join(s, " ") + "]"
}

func sameKvs(got []*proto.KeyValue, want []mkv) bool {
	if len(got) != len(want) {
		return false
	}
	for i := range got {
		if string(got[i].Key) != want[i].key || string(got[i].Value) != want[i].val || got[i].Revision != want[i].rev {
			return false
		}
	}
	return true
}

// readBack compares every point / range / limited range / count read at every revision with the model.
func (w *world) readBack(x *mc.SeqOut, m *mvcc, prop string, keys []string, memo map[string]string) {
	committed := w.b.GetCurrentRevision()
	revs := []uint64{0}
	for r := uint64(base + 1); r <= committed; r++ {
		revs = append(revs, r)
	}
	anyTomb := false
	for _, k := range keys {
		anyTomb = anyTomb || w.tombstoneTouched(m, k)
	}
	cls := ""
	if anyTomb {
		cls = "|value-is-deletion-marker"
	}
	fail := func(sig, format string, a ...interface{}) {
		if len(x.Viols) < 4 {
			x.Viols = append(x.Viols, mc.Violation{Sig: prop + "|" + sig + "|" + w.engine + cls, Detail: fmt.Sprintf(format, a...)})
		}
	}
	for _, r := range revs {
		if r != 0 && r < m.floor {
			continue
		}
		mr := r
		if r == 0 {
			mr = committed
		}
		for _, k := range keys {
			x.Evals++
			g, err := w.b.Get(bg, &proto.GetRequest{Key: []byte(k), Revision: r})
			if err != nil {
				fail("get-error", "Get(%s, rev %d) failed: %v", k, int64(r)-base, err)
				continue
			}
			v, ok := m.at(k, mr)
			var got []*proto.KeyValue
			if g.Kv != nil {
				got = append(got, g.Kv)
			}
			var want []mkv
			if ok {
				want = append(want, mkv{k, v.val, v.rev})
			}
			if !sameKvs(got, want) {
				fail("get", "Get(%s, rev %d) returned %s, the snapshot holds %s (versions %v)", k, int64(r)-base, kvsString(got), mkvString(want), m.keys[k])
			}
			if memo != nil && r != 0 {
				key := fmt.Sprintf("g|%s|%d", k, r)
				now := kvsString(got)
				if old, seen := memo[key]; seen && old != now {
					fail("unstable-read", "Get(%s, rev %d) returned %s earlier and %s now", k, int64(r)-base, old, now)
				}
				memo[key] = now
			}
		}
		for i, s := range c03Bounds {
			for _, e := range c03Bounds[i+1:] {
				full, _ := m.list(s, e, mr, 0)
				for limit := 0; limit <= len(full)+1; limit++ {
					x.Evals++
					l, err := w.b.List(bg, &proto.RangeRequest{Key: []byte(s), End: []byte(e), Revision: r, Limit: int64(limit)})
					if err != nil {
						fail("list-error", "List[%s,%s) rev %d limit %d failed: %v", s, e, int64(r)-base, limit, err)
						continue
					}
					want, more := m.list(s, e, mr, limit)
					if !sameKvs(l.Kvs, want) || l.More != more {
						fail("list", "List[%s,%s) rev %d limit %d returned %s more=%v, the snapshot holds %s more=%v", s, e, int64(r)-base, limit, kvsString(l.Kvs), l.More, mkvString(want), more)
					}
				}
				if r == 0 {
					x.Evals++
					cnt, err := w.b.Count(bg, &proto.CountRequest{Key: []byte(s), End: []byte(e)})
					if err != nil {
						fail("count-error", "Count[%s,%s) failed: %v", s, e, err)
					} else if int(cnt.Count) != len(full) {
						fail("count", "Count[%s,%s) returned %d, the snapshot holds %d keys %s", s, e, cnt.Count, len(full), mkvString(full))
					}
				}
			}
		}
	}
}

func c03Run(cfgIdx int, hist []int) *mc.SeqOut {
	cfg := c03Configs()[cfgIdx]
	alpha := c03Alphabet(len(cfg.keys))
	out := &mc.SeqOut{}
	w := newWorldCompat(cfg.engine, 16, true)
	defer w.close()
	m := newMvcc()
	memo := map[string]string{}
	for i, a := range hist {
		o := alpha[a]
		if !w.applyOp(out, m, "C03", cfg.keys[o.key], o) {
			return out
		}
		// old snapshots are re-read after every later write; the full read-back runs after the last two steps
		if i >= len(hist)-2 {
			w.readBack(out, m, "C03", cfg.keys, memo)
			if len(out.Viols) > 0 {
				return out
			}
		}
	}
	out.Key = m.canon()
	out.Obs = out.Key
	w.clean = true
	return out
}

// ---- schedules: concurrent reads of one range with different limits (and a writer) ----

type c03Sched struct {
	limits []int64 // one List thread per limit
	count  bool    // a Count thread as well
	writer bool    // a client creating a key inside the range while the reads run
}

func (c c03Sched) name() string {
	return fmt.Sprintf("C03/sched/limits=%v/count=%v/writer=%v", c.limits, c.count, c.writer)
}

func c03Scheds(tier string) []c03Sched {
	out := []c03Sched{{[]int64{1, 0}, false, false}, {[]int64{1, 2}, true, false}, {[]int64{2, 0}, false, true}}
	if tier == "thorough" {
		out = append(out, c03Sched{[]int64{1, 2, 0}, false, false}, c03Sched{[]int64{1, 3}, true, true})
	}
	return out
}

func c03SchedScenario(c c03Sched) *mc.Scenario {
	return &mc.Scenario{Name: c.name(), Body: func(x *mc.X) {
		so := &mc.SeqOut{}
		w := newWorldCompat(hx.Mem, 16, true)
		defer w.close()
		m := newMvcc()
		// a, a/b, a-b, ab live; a updated once; a-b deleted
		for _, o := range []seqOp{{0, rCreate, "v1"}, {1, rCreate, "v1"}, {2, rCreate, "v1"}, {3, rCreate, "v2"}, {0, rUpdOK, "v2"}, {2, rDelOK, ""}} {
			if !w.applyOp(so, m, "C03", c03Keys[o.key], o) {
				panic("initial history failed")
			}
		}
		w.ops = nil
		type res struct {
			limit int64
			resp  *proto.RangeResponse
			err   error
		}
		var lists []*res
		var cnt *proto.CountResponse
		var cntErr error
		vrt.BeginExplore()
		var ths []*vrt.Thread
		for _, l := range c.limits {
			r := &res{limit: l}
			lists = append(lists, r)
			ths = append(ths, vrt.Go(func() {
				r.resp, r.err = w.b.List(bg, &proto.RangeRequest{Key: []byte("/r/"), End: []byte("/r0"), Limit: r.limit})
			}))
		}
		if c.count {
			ths = append(ths, vrt.Go(func() { cnt, cntErr = w.b.Count(bg, &proto.CountRequest{Key: []byte("/r/"), End: []byte("/r0")}) }))
		}
		if c.writer {
			ths = append(ths, vrt.Go(func() { w.do(&clientOp{Key: "/r/aa", Kind: rCreate, Val: "w"}) }))
		}
		for _, t := range ths {
			vrt.Join(t)
		}
		vrt.Quiesce()
		vrt.EndExplore()
		for _, op := range w.ops {
			if op.OK {
				m.apply(op.Kind, op.Key, op.Val, op.Hdr)
			}
		}
		var outs []string
		for _, r := range lists {
			if r.err != nil {
				x.Fail("C03|concurrent-list-error|mem", "List with limit %d failed: %v", r.limit, r.err)
				continue
			}
			hdr := r.resp.Header.GetRevision()
			want, more := m.list("/r/", "/r0", hdr, int(r.limit))
			if !sameKvs(r.resp.Kvs, want) || r.resp.More != more {
				x.Fail("C03|concurrent-list|mem", "List with limit %d, running concurrently with %v, answered at revision %d with %s more=%v; the snapshot at that revision holds %s more=%v", r.limit, c.name(), int64(hdr)-base, kvsString(r.resp.Kvs), r.resp.More, mkvString(want), more)
			}
			outs = append(outs, fmt.Sprintf("l%d@%d:%d/%v", r.limit, int64(hdr)-base, len(r.resp.Kvs), r.resp.More))
		}
		if c.count {
			if cntErr != nil {
				x.Fail("C03|concurrent-count-error|mem", "%v", cntErr)
			} else {
				want, _ := m.list("/r/", "/r0", cnt.Header.GetRevision(), 0)
				if int(cnt.Count) != len(want) {
					x.Fail("C03|concurrent-count|mem", "Count answered %d at revision %d, the snapshot holds %d keys", cnt.Count, int64(cnt.Header.GetRevision())-base, len(want))
				}
				outs = append(outs, fmt.Sprintf("count=%d", cnt.Count))
			}
		}
		x.Viols = append(x.Viols, so.Viols...)
		x.Obs = strings.Join(outs, " ")
		w.clean = true
	}}
}

func init() {
	mc.Register(&mc.Property{
		ID:    "C03",
		Level: "model_checking",
		Rule: "explicit-state BFS over write histories (create / update correct+stale / delete correct+stale+unguarded x values v1,v2,'tombstone') on prefix-related key sets, states de-duplicated on the rank-normalised reference-model state; " +
			"after every transition every point read, range read over every pair of 7 bounds, every limit 0..n+1 and count is compared with the versioned-map model at every revision from the first to the committed one, and with the answer recorded one step earlier; plus every schedule (preemption-bounded) of 2-3 concurrent range reads of one range with different limits, a count and a writer inside the range, each answer compared with the snapshot at its own header revision",
		Assume: []string{
			"the history search uses a single client and the default schedule, every request followed by scheduler-detected quiescence; concurrent reads are covered by the schedule scenarios",
			"values outside {v1,v2,tombstone} and keys outside the 4-key set are not covered",
		},
		Exec: func(j *mc.Job) *mc.JobResult { return mc.SeqExec(j, c03Run) },
		Scenarios: func(tier string) []*mc.Scenario {
			var out []*mc.Scenario
			for _, c := range c03Scheds(tier) {
				out = append(out, c03SchedScenario(c))
			}
			return out
		},
		Drive: func(c *mc.Ctx) {
			// concurrent reads first (seconds): every schedule of List threads with different limits, Count and a writer
			full := c.Deadline
			c.Deadline = c.Start.Add(full.Sub(c.Start) / 4)
			mc.DriveSchedules(c, func(i int, sc *mc.Scenario) mc.SchedPlan {
				p := mc.SchedPlan{Class: "concurrent-reads", Bounds: []int{0, 1}, Shard: true}
				if c.Tier == "thorough" {
					p.Bounds = []int{0, 1, 2}
				}
				return p
			})
			c.Deadline = full
			cfgs := c03Configs()
			mc.SeqFullDepth = 1
			if c.Tier == "thorough" {
				mc.SeqFullDepth = 2
			}
			stats := map[string]mc.SeqStats{}
			total := mc.SeqStats{}
			for i, cfg := range cfgs {
				depth := 4
				switch {
				case c.Tier == "thorough" && cfg.engine == hx.Mem && len(cfg.keys) == 2:
					depth = 6
				case c.Tier == "thorough":
					depth = 4
				case len(cfg.keys) == 4 || cfg.engine != hx.Mem:
					depth = 3
				}
				st := mc.DriveSeq(c, "bfs", i, len(c03Alphabet(len(cfg.keys))), depth)
				stats[fmt.Sprintf("%s/%s", cfg.engine, strings.Join(cfg.keys, ","))] = st
				total.States += st.States
				total.Transitions += st.Transitions
				total.Evals += st.Evals
			}
			c.Cov["states"] = total.States
			c.Cov["transitions"] = total.Transitions
			c.Cov["oracle_evaluations"] = total.Evals
			c.Cov["per_configuration"] = stats
		},
	})
}
