package props

import (
	"bytes"
	"context"
	"encoding/json"
	"errors"
	"fmt"
	"io"
	"sort"
	"strings"

	"github.com/kubewharf/kubebrain/pkg/storage"
	smetrics "github.com/kubewharf/kubebrain/pkg/storage/metrics"
	"github.com/kubewharf/kubebrain/zz_verif/h/hx"
	"github.com/kubewharf/kubebrain/zz_verif/h/mc"
)

// C11 — every storage adapter honours the engine contract.  Explicit-state search with a sorted map
// as the model: 3 keys x {absent, x, y} = 27 states; transitions are write batches.

var c11Keys = []string{"b2", "b5", "b8"}
var c11Pos = []string{"a", "b2", "b3", "b5", "b6", "b8", "c"}
var c11PosExt = []string{"a", "b", "b2", "b5", "b50", "b51", "b6", "b8", "c"}
var c11Vals = []string{"", "x", "y"} // "" = absent

type c11Op struct {
	kind string // pine cas put del
	key  int
	val  string
	old  string
}

func (o c11Op) String() string {
	switch o.kind {
	case "cas":
		return fmt.Sprintf("cas(%s,%s<-%s)", c11Keys[o.key], o.val, o.old)
	case "del":
		return fmt.Sprintf("del(%s)", c11Keys[o.key])
	}
	return fmt.Sprintf("%s(%s,%s)", o.kind, c11Keys[o.key], o.val)
}

func c11Ops() []c11Op {
	var out []c11Op
	for k := range c11Keys {
		for _, v := range []string{"x", "y"} {
			out = append(out, c11Op{"pine", k, v, ""})
			out = append(out, c11Op{"put", k, v, ""})
			for _, o := range []string{"x", "y", "z"} {
				out = append(out, c11Op{"cas", k, v, o})
			}
		}
		out = append(out, c11Op{"del", k, "", ""})
	}
	return out
}

type sortedModel map[string]string

func (m sortedModel) clone() sortedModel {
	c := sortedModel{}
	for k, v := range m {
		c[k] = v
	}
	return c
}

// apply returns the new state and whether the batch must fail with a failed condition.
func (m sortedModel) apply(ops []c11Op) (sortedModel, bool) {
	w := m.clone()
	for _, o := range ops {
		k := c11Keys[o.key]
		cur, ok := w[k]
		switch o.kind {
		case "pine":
			if ok {
				return m, true
			}
			w[k] = o.val
		case "cas":
			if !ok || cur != o.old {
				return m, true
			}
			w[k] = o.val
		case "put":
			w[k] = o.val
		case "del":
			delete(w, k)
		}
	}
	return w, false
}

func (m sortedModel) String() string {
	var ks []string
	for k := range m {
		ks = append(ks, k)
	}
	sort.Strings(ks)
	var s []string
	for _, k := range ks {
		s = append(s, k+"="+m[k])
	}
	return "{" + strings.Join(s, " ") + "}"
}

func c11State(i int) sortedModel {
	m := sortedModel{}
	for k := range c11Keys {
		v := c11Vals[i%3]
		i /= 3
		if v != "" {
			m[c11Keys[k]] = v
		}
	}
	return m
}

var c11Engines = []string{"mem", "badger", "tikv", "metrics(mem)", "metrics(badger)", "metrics(tikv)"}

type c11Job struct {
	Engine string
	From   int
	To     int
	Two    bool
	Three  bool // every ordered three-operation batch as well (thorough)
}

type c11Env struct {
	name    string
	kv      storage.KvStorage
	raw     storage.KvStorage
	cleanup func()
	uses    int
}

func newC11Env(name string) *c11Env {
	kind := strings.TrimSuffix(strings.TrimPrefix(name, "metrics("), ")")
	kv, cleanup, err := hx.NewEngine(kind)
	if err != nil {
		panic(err)
	}
	e := &c11Env{name: name, kv: kv, raw: kv, cleanup: cleanup}
	if strings.HasPrefix(name, "metrics(") {
		e.kv = smetrics.NewKvStorage(kv, hx.NopMetrics{})
	}
	return e
}

// reset brings the engine into the given state (recycling the instance now and then).
func (e *c11Env) reset(m sortedModel) {
	e.uses++
	if e.uses%60 == 0 && !strings.Contains(e.name, "mem") {
		e.cleanup()
		*e = *newC11Env(e.name)
	}
	for _, r := range hx.Dump(e.raw) {
		if err := e.raw.Del(context.Background(), r.Key); err != nil {
			panic(err)
		}
	}
	b := e.raw.BeginBatchWrite()
	for k, v := range m {
		b.Put([]byte(k), []byte(v), 0)
	}
	if err := b.Commit(context.Background()); err != nil {
		panic(err)
	}
}

func (e *c11Env) contents() sortedModel {
	m := sortedModel{}
	for _, r := range hx.Dump(e.raw) {
		m[string(r.Key)] = string(r.Val)
	}
	return m
}

func drain(it storage.Iter, max int) ([]string, error) {
	var out []string
	for i := 0; i < max; i++ {
		err := it.Next(context.Background())
		if err == io.EOF {
			return out, nil
		}
		if err != nil {
			return out, err
		}
		out = append(out, string(it.Key())+"="+string(it.Val()))
	}
	return out, fmt.Errorf("iterator did not end after %d elements", max)
}

func (m sortedModel) interval(start, end string) []string {
	var ks []string
	for k := range m {
		ks = append(ks, k)
	}
	sort.Strings(ks)
	var out []string
	if start < end {
		for _, k := range ks {
			if k >= start && k < end {
				out = append(out, k+"="+m[k])
			}
		}
	} else {
		for i := len(ks) - 1; i >= 0; i-- {
			if k := ks[i]; k <= start && k > end {
				out = append(out, k+"="+m[k])
			}
		}
	}
	return out
}

func c11Exec(j *mc.Job) *mc.JobResult {
	var cj c11Job
	json.Unmarshal(j.Extra, &cj)
	res := &mc.JobResult{Outcomes: map[string]int{}}
	env := newC11Env(cj.Engine)
	defer func() { env.cleanup() }()
	ctx := context.Background()
	fail := func(sig, f string, a ...interface{}) {
		sig = "C11|" + sig + "|" + cj.Engine
		for _, v := range res.Viols {
			if v.Sig == sig {
				return
			}
		}
		jj := *j
		res.Viols = append(res.Viols, mc.Violation{Sig: sig, Detail: fmt.Sprintf(f, a...), Job: &jj})
	}
	ops := c11Ops()
	class := func(err error) string {
		switch {
		case err == nil:
			return "ok"
		case errors.Is(err, storage.ErrCASFailed):
			return "failed-condition"
		}
		return "error:" + err.Error()
	}
	runBatch := func(st sortedModel, batch []c11Op) {
		env.reset(st)
		b := env.kv.BeginBatchWrite()
		for _, o := range batch {
			k := []byte(c11Keys[o.key])
			switch o.kind {
			case "pine":
				b.PutIfNotExist(k, []byte(o.val), 0)
			case "cas":
				b.CAS(k, []byte(o.val), []byte(o.old), 0)
			case "put":
				b.Put(k, []byte(o.val), 0)
			case "del":
				b.Del(k)
			}
		}
		err := b.Commit(ctx)
		want, mustFail := st.apply(batch)
		got := env.contents()
		res.Execs++
		res.Steps++
		cls := class(err)
		res.Outcomes[cls]++
		kinds := ""
		for _, o := range batch {
			kinds += o.kind + "+"
		}
		switch {
		case mustFail && cls == "ok":
			fail("condition-ignored|"+kinds, "state %v batch %v: committed although a condition does not hold; contents now %v", st, batch, got)
		case mustFail && cls != "failed-condition":
			missing := ""
			for _, o := range batch {
				if _, ok := st[c11Keys[o.key]]; !ok && o.kind == "cas" {
					missing = "|cas-on-missing-key"
				}
			}
			fail("wrong-error-for-failed-condition"+missing, "state %v batch %v: a condition does not hold, expected a failed-condition error, got %q", st, batch, cls)
		case !mustFail && cls != "ok":
			fail("spurious-failure|"+kinds, "state %v batch %v: every condition holds but Commit returned %q", st, batch, cls)
		}
		if got.String() != want.String() {
			fail("contents|"+kinds, "state %v batch %v (result %s): contents are %v, expected %v", st, batch, cls, got, want)
		}
	}
	for si := cj.From; si < cj.To; si++ {
		st := c11State(si)
		// single-operation batches (and, thorough, all ordered pairs)
		for _, a := range ops {
			runBatch(st, []c11Op{a})
			if cj.Two {
				for _, b := range ops {
					runBatch(st, []c11Op{a, b})
					if cj.Three {
						for _, c := range ops {
							runBatch(st, []c11Op{a, b, c})
						}
					}
				}
			}
		}
		// Get / Del / DelCurrent
		env.reset(st)
		for _, k := range c11Keys {
			v, err := env.kv.Get(ctx, []byte(k))
			res.Execs++
			if want, ok := st[k]; ok {
				if err != nil || string(v) != want {
					fail("get", "state %v Get(%s) = %q, %v", st, k, v, err)
				}
			} else if err != storage.ErrKeyNotFound {
				fail("get-missing", "state %v Get(%s) of a missing key returned %q, %v (expected ErrKeyNotFound)", st, k, v, err)
			}
		}
		for ki, k := range c11Keys {
			// Del
			env.reset(st)
			err := env.kv.Del(ctx, []byte(k))
			want, _ := st.apply([]c11Op{{"del", ki, "", ""}})
			res.Execs++
			if err != nil || env.contents().String() != want.String() {
				fail("del", "state %v Del(%s): err %v contents %v expected %v", st, k, err, env.contents(), want)
			}
			if _, ok := st[k]; !ok {
				continue
			}
			// DelCurrent through an iterator positioned on the key: fresh view, then stale view
			for _, stale := range []bool{false, true} {
				for _, viaBatch := range []bool{false, true} {
					env.reset(st)
					it, err := env.kv.Iter(ctx, []byte(k), []byte(k+"\x00"), 0, 0)
					if err != nil {
						fail("iter-error", "Iter: %v", err)
						continue
					}
					if err := it.Next(ctx); err != nil {
						fail("iter-on-key", "state %v: iterator [%s,%s\\0) does not yield the key: %v", st, k, k, err)
						it.Close()
						continue
					}
					cur := st.clone()
					if stale {
						other := "x"
						if st[k] == "x" {
							other = "y"
						}
						b := env.raw.BeginBatchWrite()
						b.Put([]byte(k), []byte(other), 0)
						if err := b.Commit(ctx); err != nil {
							panic(err)
						}
						cur[k] = other
					}
					var derr error
					if viaBatch {
						b := env.kv.BeginBatchWrite()
						b.DelCurrent(it)
						derr = b.Commit(ctx)
					} else {
						derr = env.kv.DelCurrent(ctx, it)
					}
					it.Close()
					res.Execs++
					got := env.contents()
					if stale {
						if class(derr) != "failed-condition" {
							fail("delcurrent-stale-result", "state %v: %s changed after the iterator read it; DelCurrent returned %q, expected a failed condition", st, k, class(derr))
						}
						if got.String() != cur.String() {
							fail("delcurrent-stale-effect", "state %v: DelCurrent through a stale iterator changed the contents to %v (expected %v)", st, got, cur)
						}
					} else {
						delete(cur, k)
						if derr != nil || got.String() != cur.String() {
							fail("delcurrent", "state %v: DelCurrent(%s) returned %v, contents %v, expected %v", st, k, derr, got, cur)
						}
					}
				}
			}
		}
		// iterators: every (start,end), both directions, limits 0..2; a second pass adds a stored key that
		// extends another stored key (b50 after b5) and bounds that are proper prefixes of stored keys
		for variant := 0; variant < 2; variant++ {
			ist, pos := st, c11Pos
			if variant == 1 {
				ist = st.clone()
				ist["b50"] = "x"
				pos = c11PosExt
			}
			env.reset(ist)
			for _, s := range pos {
				for _, e := range pos {
					if s == e {
						continue
					}
					want := ist.interval(s, e)
					for limit := 0; limit <= 2; limit++ {
						it, err := env.kv.Iter(ctx, []byte(s), []byte(e), 0, uint64(limit))
						if err != nil {
							fail("iter-error", "Iter(%s,%s): %v", s, e, err)
							continue
						}
						got, derr := drain(it, 10)
						it.Close()
						res.Execs++
						dir := "forward"
						if s > e {
							dir = "reverse"
						}
						if derr != nil {
							fail("iter-next-error|"+dir, "state %v Iter(%s,%s,limit %d): %v after %v", ist, s, e, limit, derr, got)
							continue
						}
						ok := len(got) <= len(want)
						for i := 0; ok && i < len(got); i++ {
							ok = got[i] == want[i]
						}
						if limit == 0 {
							ok = ok && len(got) == len(want)
						} else if len(want) >= limit {
							ok = ok && len(got) >= limit
						} else {
							ok = ok && len(got) == len(want)
						}
						if !ok {
							sig := "iter|" + dir
							if len(got) > 0 && (len(want) == 0 || got[0] != want[0]) {
								sig += "|first-element-outside-interval"
							}
							fail(sig, "state %v Iter(start=%s,end=%s,limit=%d) yields %v, the interval holds %v", ist, s, e, limit, got, want)
						}
					}
				}
			}
		}
		// snapshot: an open iterator is not affected by later writes
		for _, a := range ops {
			env.reset(st)
			it, err := env.kv.Iter(ctx, []byte("a"), []byte("c"), 0, 0)
			if err != nil {
				continue
			}
			want := st.interval("a", "c")
			var got []string
			if len(want) > 0 {
				if err := it.Next(ctx); err == nil {
					got = append(got, string(it.Key())+"="+string(it.Val()))
				}
			}
			b := env.raw.BeginBatchWrite()
			k := []byte(c11Keys[a.key])
			switch a.kind {
			case "pine":
				b.PutIfNotExist(k, []byte(a.val), 0)
			case "cas":
				b.CAS(k, []byte(a.val), []byte(a.old), 0)
			case "put":
				b.Put(k, []byte(a.val), 0)
			case "del":
				b.Del(k)
			}
			_ = b.Commit(ctx)
			rest, derr := drain(it, 10)
			it.Close()
			got = append(got, rest...)
			res.Execs++
			if derr != nil || strings.Join(got, " ") != strings.Join(want, " ") {
				fail("iter-snapshot", "state %v: iterator opened, advanced once, then %v committed: iterator yields %v (err %v), its snapshot held %v", st, a, got, derr, want)
			}
		}
		res.States++
	}
	if len(res.Samples) == 0 {
		res.Samples = []string{fmt.Sprintf("%s: state %v x %d single-operation batches, two-op=%v, 126 iterator shapes", cj.Engine, c11State(cj.From), len(ops), cj.Two)}
	}
	res.Steps = res.Execs
	return res
}

var _ = bytes.Compare

func init() {
	mc.Register(&mc.Property{
		ID:     "C11",
		Level:  "model_checking",
		Rule:   "explicit-state search with a sorted map as reference model: all 27 states of 3 keys x {absent,x,y}; from every state every single-operation batch (put-if-absent, CAS x 3 expectations incl. a missing key, put, delete), every ordered two-operation batch (thorough: every ordered three-operation batch as well), Get, Del, DelCurrent through a fresh and a stale iterator (direct and inside a batch), every iterator (start,end) over 7 positions in both directions with limits 0..2 - and again over 9 positions including proper prefixes of stored keys with a stored key that extends another one added -, and the snapshot test (iterator opened, advanced, each batch committed, drained); on memkv, badger, tikv-mock and each behind the metrics wrapper; result class and full contents compared after every transition",
		Assume: []string{"sequential use of one engine instance; engines run free (no scheduler)", "TTL arguments are 0"},
		Exec:   c11Exec,
		Drive: func(c *mc.Ctx) {
			two := true // every ordered two-operation batch in both tiers (6 s)
			for _, eng := range c11Engines {
				step := 3
				if c.Tier == "thorough" {
					step = 1
				}
				for from := 0; from < 27; from += step {
					e, _ := json.Marshal(c11Job{eng, from, from + step, two, c.Tier == "thorough"})
					c.Pool.Submit(mc.Job{Prop: "C11", Kind: "contract", Tier: c.Tier, Extra: e}, func(j mc.Job, r *mc.JobResult) { c.Agg.Add(j, r) })
				}
			}
			c.Pool.Wait()
			c.Cov["states"] = 27 * len(c11Engines)
			c.Cov["engines"] = c11Engines
		},
	})
}
