package props

import (
	"bytes"
	"context"
	"encoding/json"
	"fmt"
	"io/ioutil"
	"net"
	"net/http"
	"net/http/httptest"
	"sort"
	"strings"
	"sync/atomic"

	pb "go.etcd.io/etcd/api/v3/etcdserverpb"
	"go.etcd.io/etcd/api/v3/mvccpb"

	proto "github.com/kubewharf/kubebrain-client/api/v2rpc"

	"github.com/kubewharf/kubebrain/pkg/backend"
	"github.com/kubewharf/kubebrain/pkg/server/brain"
	"github.com/kubewharf/kubebrain/pkg/server/etcd"
	"github.com/kubewharf/kubebrain/pkg/server/service/leader"
	"github.com/kubewharf/kubebrain/pkg/server/service/revision"
	"github.com/kubewharf/kubebrain/pkg/storage/memkv"
	"github.com/kubewharf/kubebrain/zz_verif/h/hx"
	"github.com/kubewharf/kubebrain/zz_verif/h/mc"
	"github.com/kubewharf/kubebrain/zz_verif/rt/vatomic"
	"github.com/kubewharf/kubebrain/zz_verif/rt/vrt"
)

// C18 — only the leader writes and streams; followers read at its revision or fail.

// peers18 combines the REAL revision syncer with a stub election and a recording proxy.
type peers18 struct {
	revision.RevisionSyncer
	*leader.Stub
	proxyOn      bool
	proxiedTxn   int
	proxiedWatch int
}

func (p *peers18) EtcdProxyEnabled() bool { return p.proxyOn }
func (p *peers18) Txn(ctx context.Context, txn *pb.TxnRequest) (*pb.TxnResponse, error) {
	p.proxiedTxn++
	return &pb.TxnResponse{Header: &pb.ResponseHeader{}, Succeeded: true}, nil
}
func (p *peers18) Watch(ctx context.Context, key string, rev uint64) (<-chan []*mvccpb.Event, error) {
	p.proxiedWatch++
	ch := make(chan []*mvccpb.Event)
	close(ch)
	return ch, nil
}

// the leader's /status endpoint, in process.  The handler runs on net/http's goroutines and must not
// touch instrumented code: it reads a plain atomic.
type leaderStub struct {
	srv   *httptest.Server
	rev   uint64
	mode  string // ok http400 garbage
	hits  int64
	addr  string
	peekB backend.Backend
}

// one endpoint per mode and worker process (creating a listener per execution is slow)
var leaderStubs = map[string]*leaderStub{}

func newLeaderStub(mode string) *leaderStub {
	if l := leaderStubs[mode]; l != nil {
		atomic.StoreInt64(&l.hits, 0)
		l.peekB = nil
		return l
	}
	l := newLeaderStub0(mode)
	leaderStubs[mode] = l
	return l
}

func newLeaderStub0(mode string) *leaderStub {
	l := &leaderStub{mode: mode}
	if mode == "refused" {
		// a port nobody listens on
		ln, err := net.Listen("tcp", "127.0.0.1:0")
		if err != nil {
			panic(err)
		}
		l.addr = ln.Addr().String()
		ln.Close()
		return l
	}
	l.srv = httptest.NewServer(http.HandlerFunc(func(w http.ResponseWriter, r *http.Request) {
		atomic.AddInt64(&l.hits, 1)
		switch l.mode {
		case "http400":
			w.WriteHeader(400)
			w.Write([]byte("i'm not leader, so can't tell you revision"))
		case "garbage":
			w.WriteHeader(200)
			w.Write([]byte("<html>not json</html>"))
		case "http503-json":
			w.WriteHeader(503)
			w.Write([]byte(`{"code":503,"message":"service unavailable"}`))
		case "http500-stale-revision-json":
			// an error answer whose body happens to have the shape of a revision (an old one)
			w.WriteHeader(500)
			b, _ := json.Marshal(&revision.LeaderRevision{Revision: base + 1})
			w.Write(b)
		default:
			rev := atomic.LoadUint64(&l.rev)
			if l.peekB != nil {
				rev, _ = backend.VerifPeek(l.peekB)
			}
			b, _ := json.Marshal(&revision.LeaderRevision{Revision: rev})
			w.WriteHeader(200)
			w.Write(b)
		}
	}))
	l.addr = strings.TrimPrefix(l.srv.URL, "http://")
	return l
}

func (l *leaderStub) close() { l.peekB = nil }

type c18Case struct {
	Req    string
	Leader bool
	Proxy  bool
	Mode   string // ok refused http400 garbage
}

func (c c18Case) String() string {
	role := "follower"
	if c.Leader {
		role = "leader"
	}
	return fmt.Sprintf("%s/%s/proxy=%v/leader-%s", c.Req, role, c.Proxy, c.Mode)
}

var c18Reqs = []string{
	"etcd.Range.get", "etcd.Range.list", "etcd.Range.count", "etcd.Range.partitions",
	"etcd.Txn.create", "etcd.Txn.update", "etcd.Txn.delete", "etcd.Txn.compact", "etcd.Txn.invalid",
	"etcd.Watch.pure", "etcd.Watch.non-pure", "etcd.Watch.range-stream", "etcd.Watch.cancel", "etcd.Compact", "etcd.LeaseGrant",
	"brain.Create", "brain.Update", "brain.Delete", "brain.Compact", "brain.Get", "brain.Range", "brain.Count", "brain.ListPartition", "brain.RangeStream", "brain.Watch",
}

func c18Cases() []c18Case {
	var out []c18Case
	for _, r := range c18Reqs {
		for _, ld := range []bool{true, false} {
			for _, px := range []bool{false, true} {
				for _, m := range []string{"ok", "refused", "http400", "garbage", "http503-json", "http500-stale-revision-json"} {
					out = append(out, c18Case{r, ld, px, m})
				}
			}
		}
	}
	return out
}

var writeCalls = map[string]bool{"Create": true, "Update": true, "Delete": true, "Compact": true, "Watch": true}
var readCalls = map[string]bool{"Get": true, "List": true, "Count": true, "GetPartitions": true, "ListByStream": true}

func c18RunCase(c c18Case) (obs string, viols []mc.Violation) {
	fail := func(sig, f string, a ...interface{}) {
		viols = append(viols, mc.Violation{Sig: "C18|" + sig, Detail: c.String() + ": " + fmt.Sprintf(f, a...)})
	}
	kv := memkv.NewKvStorage()
	real := backend.NewBackend(kv, backend.Config{Prefix: "/r", Identity: "self:1", WatchCacheSize: 16, EnableEtcdCompatibility: true}, hx.NopMetrics{})
	real.SetCurrentRevision(base)
	vrt.Quiesce()
	// some data, written as the previous leader would have
	for i, k := range []string{"/r/a", "/r/b"} {
		if r, err := real.Create(bg, &proto.CreateRequest{Key: []byte(k), Value: []byte(fmt.Sprintf("v%d", i))}); err != nil || !r.Succeeded {
			panic("setup")
		}
		vrt.Quiesce()
	}
	const leaderRev = base + 2
	rec := &hx.RecBackend{Backend: real}
	ls := newLeaderStub(c.Mode)
	defer ls.close()
	atomic.StoreUint64(&ls.rev, leaderRev)
	el := &leader.Stub{ElectionInfo: leader.ElectionInfo{LeaderAddress: ls.addr, IsLeader: c.Leader}}
	peers := &peers18{RevisionSyncer: revision.NewRevisionSyncer(rec, hx.NopMetrics{}, el, nil), Stub: el, proxyOn: c.Proxy}
	defer peers.RevisionSyncer.Close() // drop the idle connections of this execution's HTTP client
	es := etcd.New(rec, hx.NopMetrics{}, peers)
	bs := brain.New(rec, hx.NopMetrics{}, peers)
	if !c.Leader {
		// a follower's own revision is stale
		real.SetCurrentRevision(base)
	}
	rec.Calls = nil
	ctx := context.Background()
	var err error
	gotResp := false
	watchReq := func(key string, start int64) {
		ws := hx.NewWatchStream()
		done := vrt.Go(func() { err = es.Watch(ws) })
		ws.Push(&pb.WatchRequest{RequestUnion: &pb.WatchRequest_CreateRequest{CreateRequest: &pb.WatchCreateRequest{Key: []byte(key), RangeEnd: []byte("/r0"), StartRevision: start}}})
		vrt.Quiesce()
		if c.Req == "etcd.Watch.cancel" {
			ws.Push(&pb.WatchRequest{RequestUnion: &pb.WatchRequest_CancelRequest{CancelRequest: &pb.WatchCancelRequest{WatchId: 1}}})
			vrt.Quiesce()
		}
		ws.Cancel()
		ws.CloseSend()
		vrt.Join(done)
		vrt.Quiesce()
		for _, r := range ws.Sent {
			if len(r.Events) > 0 {
				gotResp = true
			}
		}
	}
	switch c.Req {
	case "etcd.Range.get":
		var r *pb.RangeResponse
		r, err = es.Range(ctx, &pb.RangeRequest{Key: []byte("/r/a")})
		gotResp = err == nil && len(r.Kvs) > 0
	case "etcd.Range.list":
		var r *pb.RangeResponse
		r, err = es.Range(ctx, &pb.RangeRequest{Key: []byte("/r/"), RangeEnd: []byte("/r0")})
		gotResp = err == nil && len(r.Kvs) > 0
	case "etcd.Range.count":
		_, err = es.Range(ctx, &pb.RangeRequest{Key: []byte("/r/"), RangeEnd: []byte("/r0"), CountOnly: true})
	case "etcd.Range.partitions":
		_, err = es.Range(ctx, &pb.RangeRequest{Key: []byte("/r/"), RangeEnd: []byte("/r0"), Revision: etcd.GetPartitionMagic})
	case "etcd.Txn.create":
		_, err = es.Txn(ctx, txnCreate("/r/new", "x"))
	case "etcd.Txn.update":
		_, err = es.Txn(ctx, txnUpdate("/r/a", "x", base+1))
	case "etcd.Txn.delete":
		_, err = es.Txn(ctx, txnDelete("/r/a", base+1))
	case "etcd.Txn.compact":
		_, err = es.Txn(ctx, &pb.TxnRequest{Compare: []*pb.Compare{{Target: pb.Compare_VERSION, Result: pb.Compare_EQUAL, Key: []byte("compact_rev_key"), TargetUnion: &pb.Compare_Version{Version: 0}}},
			Success: []*pb.RequestOp{opPut("compact_rev_key", "1")}, Failure: []*pb.RequestOp{opRange("compact_rev_key")}})
	case "etcd.Txn.invalid":
		_, err = es.Txn(ctx, &pb.TxnRequest{Success: []*pb.RequestOp{opPut("/r/a", "x")}})
	case "etcd.Watch.pure", "etcd.Watch.cancel":
		watchReq("/r/", 0)
	case "etcd.Watch.non-pure":
		watchReq("r/", 0)
	case "etcd.Watch.range-stream":
		watchReq("/r/", -int64(leaderRev))
	case "etcd.Compact":
		_, err = es.Compact(ctx, &pb.CompactionRequest{Revision: int64(leaderRev)})
	case "etcd.LeaseGrant":
		_, err = es.LeaseGrant(ctx, &pb.LeaseGrantRequest{TTL: 10})
	case "brain.Create":
		_, err = bs.Create(ctx, &proto.CreateRequest{Key: []byte("/r/new"), Value: []byte("x")})
	case "brain.Update":
		_, err = bs.Update(ctx, &proto.UpdateRequest{Kv: &proto.KeyValue{Key: []byte("/r/a"), Value: []byte("x"), Revision: base + 1}})
	case "brain.Delete":
		_, err = bs.Delete(ctx, &proto.DeleteRequest{Key: []byte("/r/a"), Revision: base + 1})
	case "brain.Compact":
		_, err = bs.Compact(ctx, &proto.CompactRequest{Revision: leaderRev})
	case "brain.Get":
		var r *proto.GetResponse
		r, err = bs.Get(ctx, &proto.GetRequest{Key: []byte("/r/a")})
		gotResp = err == nil && r.Kv != nil
	case "brain.Range":
		var r *proto.RangeResponse
		r, err = bs.Range(ctx, &proto.RangeRequest{Key: []byte("/r/"), End: []byte("/r0")})
		gotResp = err == nil && len(r.Kvs) > 0
	case "brain.Count":
		_, err = bs.Count(ctx, &proto.CountRequest{Key: []byte("/r/"), End: []byte("/r0")})
	case "brain.ListPartition":
		_, err = bs.ListPartition(ctx, &proto.ListPartitionRequest{Key: []byte("/r/"), End: []byte("/r0")})
	case "brain.RangeStream":
		st := &hx.BrainRangeStream{Ctx: ctx}
		err = bs.RangeStream(&proto.RangeRequest{Key: hx.Coder.EncodeObjectKey([]byte("/r/"), 0), End: hx.Coder.EncodeObjectKey([]byte("/r0"), 0), Revision: leaderRev}, st)
		for _, r := range st.Sent {
			gotResp = gotResp || len(r.RangeResponse.GetKvs()) > 0
		}
	case "brain.Watch":
		wctx, cancel := context.WithCancel(ctx)
		st := &hx.BrainWatchStream{Ctx: wctx}
		done := vrt.Go(func() { err = bs.Watch(&proto.WatchRequest{Key: []byte("/r/")}, st) })
		vrt.Quiesce()
		cancel()
		vrt.Join(done)
	}
	vrt.Quiesce()
	// oracle
	hits := atomic.LoadInt64(&ls.hits)
	var writes, reads, sets []string
	readBeforeSet := false
	seenSet := false
	for _, cl := range rec.Calls {
		switch {
		case writeCalls[cl]:
			writes = append(writes, cl)
		case readCalls[cl]:
			reads = append(reads, cl)
			if !seenSet {
				readBeforeSet = true
			}
		case strings.HasPrefix(cl, "SetCurrentRevision"):
			sets = append(sets, cl)
			seenSet = true
		}
	}
	if c.Leader {
		if hits > 0 || len(sets) > 0 {
			fail("leader-fetches-revision", "the leader asked a peer for the revision (%d requests, %v)", hits, sets)
		}
	} else {
		if len(writes) > 0 {
			fail("follower-applies-write-or-watch|"+c.Req, "a node that is not leader called %v on its backend (error returned: %v)", writes, err)
		}
		if len(reads) > 0 {
			want := fmt.Sprintf("SetCurrentRevision(%d)", uint64(leaderRev))
			switch {
			case c.Mode != "ok":
				fail("follower-reads-without-leader-revision|leader-"+c.Mode, "the leader's revision could not be obtained (%s) but the follower read from its backend: %v (error returned: %v)", c.Mode, rec.Calls, err)
			case readBeforeSet || len(sets) == 0 || sets[len(sets)-1] != want:
				fail("follower-reads-before-adopting-revision|"+c.Req, "backend calls %v; expected %s before the read", rec.Calls, want)
			}
		}
		if c.Mode != "ok" && len(reads) == 0 && err == nil && (strings.Contains(c.Req, "Range") || strings.Contains(c.Req, "Get") || strings.Contains(c.Req, "Count") || strings.Contains(c.Req, "ListPartition")) {
			fail("follower-read-neither-served-nor-failed", "no backend read and no error")
		}
	}
	return fmt.Sprintf("err=%v writes=%d reads=%d sets=%d fetches=%d proxied=%d/%d data=%v", err != nil, len(writes), len(reads), len(sets), hits, peers.proxiedTxn, peers.proxiedWatch, gotResp), viols
}

type roundTripFunc func(*http.Request) (*http.Response, error)

func (f roundTripFunc) RoundTrip(r *http.Request) (*http.Response, error) { return f(r) }

type c18Job struct{ From, To int }

func c18Exec(j *mc.Job) *mc.JobResult {
	var cj c18Job
	json.Unmarshal(j.Extra, &cj)
	cases := c18Cases()
	res := &mc.JobResult{Outcomes: map[string]int{}}
	for i := cj.From; i < cj.To && i < len(cases); i++ {
		var obs string
		var viols []mc.Violation
		r := vrt.Run(vrt.Config{Trace: j.Trace}, func() { obs, viols = c18RunCase(cases[i]) })
		res.Execs++
		res.Steps += r.Steps
		res.States++
		if r.Panic != "" {
			viols = append(viols, mc.Violation{Sig: "C18|panic|" + cases[i].Req, Detail: cases[i].String() + ": " + r.Panic})
		}
		if r.Deadlock {
			viols = append(viols, mc.Violation{Sig: "C18|deadlock|" + cases[i].Req, Detail: cases[i].String() + fmt.Sprint(r.Blocked)})
		}
		if j.Trace {
			res.Trace = r.Ops
		}
		res.Outcomes[obs]++
		if len(res.Samples) < 2 {
			res.Samples = append(res.Samples, cases[i].String()+" -> "+obs)
		}
		for _, v := range viols {
			dup := false
			for _, o := range res.Viols {
				dup = dup || o.Sig == v.Sig
			}
			if !dup {
				jj := *j
				e, _ := json.Marshal(c18Job{i, i + 1})
				jj.Extra, jj.Until, jj.Budget = e, 0, 0
				v.Job = &jj
				res.Viols = append(res.Viols, v)
			}
		}
	}
	return res
}

// ---------------------------------------------------------------------------------------------
// schedules: two follower reads while the leader's revision advances

func c18SchedScenario(readers int, writes int) *mc.Scenario {
	return &mc.Scenario{Name: fmt.Sprintf("C18/sched/readers=%d/leader-writes=%d", readers, writes), Body: func(x *mc.X) {
		kv := memkv.NewKvStorage()
		lead := backend.NewBackend(kv, backend.Config{Prefix: "/r", Identity: "leader:1", WatchCacheSize: 16}, hx.NopMetrics{})
		lead.SetCurrentRevision(base)
		foll := backend.NewBackend(kv, backend.Config{Prefix: "/r", Identity: "follower:1", WatchCacheSize: 16}, hx.NopMetrics{})
		foll.SetCurrentRevision(base)
		vrt.Quiesce()
		el := &leader.Stub{ElectionInfo: leader.ElectionInfo{LeaderAddress: "leader.test:1", IsLeader: false}}
		peers := &peers18{RevisionSyncer: revision.NewRevisionSyncer(foll, hx.NopMetrics{}, el, nil), Stub: el}
		// the leader's /status endpoint as an in-process round tripper: it runs in the calling thread and
		// reads the leader's committed revision through the instrumented code, so that the scheduler
		// (and the state fingerprint) sees the data flow from the leader to the follower
		fetched := map[string]uint64{} // thread -> what its own round trip returned
		revision.VerifSetRoundTripper(peers.RevisionSyncer, roundTripFunc(func(req *http.Request) (*http.Response, error) {
			v := lead.GetCurrentRevision()
			fetched[vrt.CurName()] = v
			b, _ := json.Marshal(&revision.LeaderRevision{Revision: v})
			return &http.Response{StatusCode: 200, Status: "200 OK", Proto: "HTTP/1.1", ProtoMajor: 1, ProtoMinor: 1, Header: http.Header{}, Body: ioutil.NopCloser(bytes.NewReader(b)), Request: req}, nil
		}))
		bs := brain.New(foll, hx.NopMetrics{}, peers)
		type rd struct {
			leaderAtStart uint64
			hdr           uint64
			keys          map[string]uint64
			err           error
			thread        string
			call, ret     int
		}
		var reads []*rd
		var written []struct {
			key string
			rev uint64
		}
		vrt.BeginExplore()
		var ths []*vrt.Thread
		ths = append(ths, vrt.Go(func() {
			for i := 0; i < writes; i++ {
				k := fmt.Sprintf("/r/k%d", i)
				r, err := lead.Create(bg, &proto.CreateRequest{Key: []byte(k), Value: []byte("v")})
				if err == nil && r.Succeeded {
					written = append(written, struct {
						key string
						rev uint64
					}{k, r.Header.Revision})
				}
			}
		}))
		for i := 0; i < readers; i++ {
			ths = append(ths, vrt.Go(func() {
				vrt.Mark()
				r := &rd{keys: map[string]uint64{}, thread: vrt.CurName()}
				r.leaderAtStart = lead.GetCurrentRevision()
				reads = append(reads, r)
				r.call = vrt.Steps()
				resp, err := bs.Range(context.Background(), &proto.RangeRequest{Key: []byte("/r/"), End: []byte("/r0")})
				r.ret = vrt.Steps()
				r.err = err
				if err == nil {
					r.hdr = resp.Header.GetRevision()
					for _, kv := range resp.Kvs {
						r.keys[string(kv.Key)] = kv.Revision
					}
				}
				vrt.Mark()
			}))
		}
		for _, t := range ths {
			vrt.Join(t)
		}
		vrt.Quiesce()
		vrt.EndExplore()
		var outs []string
		for _, r := range reads {
			if r.err != nil {
				outs = append(outs, "err")
				continue
			}
			missing := []string{}
			for _, wv := range written {
				if wv.rev <= r.leaderAtStart {
					if _, ok := r.keys[wv.key]; !ok {
						missing = append(missing, fmt.Sprintf("%s@%d", wv.key, int64(wv.rev)-base))
					}
				}
			}
			if len(missing) > 0 || r.hdr < r.leaderAtStart {
				// the same two mechanisms as in the syncer-level scenarios, seen through a whole node
				own, did := fetched[r.thread]
				cls := "other"
				inFlight := false
				for _, o := range reads {
					if _, odid := fetched[o.thread]; o != r && odid && o.call <= r.call && (o.ret == 0 || r.call <= o.ret) {
						inFlight = true
					}
				}
				switch {
				case !did && inFlight:
					cls = "joined-a-fetch-that-began-before-the-read"
				case !did:
					cls = "no-fetch-of-its-own-and-none-in-flight"
				case own >= r.leaderAtStart:
					cls = "newer-revision-overwritten-by-a-late-older-one"
				}
				x.Fail("C18|follower-read-below-leader-revision|"+cls, "a follower range read began when the leader had committed revision %d, was served at revision %d and misses %v (own fetch: %v returned %d)", int64(r.leaderAtStart)-base, int64(r.hdr)-base, missing, did, int64(own)-base)
			}
			outs = append(outs, fmt.Sprintf("start=%d served=%d", int64(r.leaderAtStart)-base, int64(r.hdr)-base))
		}
		x.Obs = strings.Join(outs, " | ")
	}}
}

// follower18 is the follower's revision holder as the syncer sees it (revision.Backend).
type follower18 struct{ rev uint64 }

func (f *follower18) SetCurrentRevision(r uint64) { vatomic.StoreUint64(&f.rev, r) }

// c18SyncScenario: the revision syncer alone (real single-flight group, real syncer code, in-process
// round tripper) with n follower reads against a leader whose committed revision advances.
func c18SyncScenario(readers, advances int) *mc.Scenario {
	return &mc.Scenario{Name: fmt.Sprintf("C18/sync/readers=%d/leader-advances=%d", readers, advances), Body: func(x *mc.X) {
		var leaderRev uint64 = base
		foll := &follower18{rev: base}
		el := &leader.Stub{ElectionInfo: leader.ElectionInfo{LeaderAddress: "leader.test:1", IsLeader: false}}
		rs := revision.NewRevisionSyncer(foll, hx.NopMetrics{}, el, nil)
		fetched := map[string]uint64{} // thread -> value its own round trip returned
		revision.VerifSetRoundTripper(rs, roundTripFunc(func(req *http.Request) (*http.Response, error) {
			v := vatomic.LoadUint64(&leaderRev)
			fetched[vrt.CurName()] = v
			b, _ := json.Marshal(&revision.LeaderRevision{Revision: v})
			return &http.Response{StatusCode: 200, Status: "200 OK", Proto: "HTTP/1.1", ProtoMajor: 1, ProtoMinor: 1, Header: http.Header{}, Body: ioutil.NopCloser(bytes.NewReader(b)), Request: req}, nil
		}))
		type rd struct {
			start, served uint64
			thread        string
			call, ret     int // steps around the synchronisation call
		}
		var reads []*rd
		vrt.BeginExplore()
		var ths []*vrt.Thread
		ths = append(ths, vrt.Go(func() {
			for i := 0; i < advances; i++ {
				vatomic.AddUint64(&leaderRev, 1) // the leader commits one more write
			}
		}))
		for i := 0; i < readers; i++ {
			ths = append(ths, vrt.Go(func() {
				r := &rd{thread: vrt.CurName()}
				reads = append(reads, r)
				r.start = vatomic.LoadUint64(&leaderRev) // what the leader had committed when the read began
				r.call = vrt.Steps()
				err := rs.SyncReadRevision()
				r.ret = vrt.Steps()
				if err != nil {
					r.served = ^uint64(0) // the read fails: allowed
					return
				}
				r.served = vatomic.LoadUint64(&foll.rev) // the revision the read is then served at
			}))
		}
		for _, t := range ths {
			vrt.Join(t)
		}
		vrt.EndExplore()
		var outs []string
		for _, r := range reads {
			if r.served < r.start {
				own, did := fetched[r.thread]
				cls := "other"
				// "joined": the read made no round trip of its own AND another read's synchronisation, which
				// did make one, was in progress when this one was called (a fetch that had already completed
				// cannot be joined: reusing its answer is a different defect)
				inFlight := false
				for _, o := range reads {
					if _, odid := fetched[o.thread]; o != r && odid && o.call <= r.call && (o.ret == 0 || r.call <= o.ret) {
						inFlight = true
					}
				}
				switch {
				case !did && inFlight:
					cls = "joined-a-fetch-that-began-before-the-read"
				case !did:
					cls = "no-fetch-of-its-own-and-none-in-flight"
				case own >= r.start:
					cls = "newer-revision-overwritten-by-a-late-older-one"
				}
				x.Fail("C18|follower-read-below-leader-revision|"+cls, "a follower read began when the leader had committed revision %d; after synchronising it is served at revision %d (own fetch: %v returned %d)", int64(r.start)-base, int64(r.served)-base, did, int64(own)-base)
			}
			outs = append(outs, fmt.Sprintf("%d->%d", int64(r.start)-base, int64(r.served)-base))
		}
		sort.Strings(outs)
		x.Obs = strings.Join(outs, " ")
	}}
}

// c18SyncFailScenario: the leader answers every status request with an error while several follower
// reads overlap: every one of them must fail - also the ones that shared another read's fetch.
func c18SyncFailScenario(readers int) *mc.Scenario {
	return &mc.Scenario{Name: fmt.Sprintf("C18/sync/readers=%d/leader-answers-503", readers), Body: func(x *mc.X) {
		foll := &follower18{rev: base}
		el := &leader.Stub{ElectionInfo: leader.ElectionInfo{LeaderAddress: "leader.test:1", IsLeader: false}}
		rs := revision.NewRevisionSyncer(foll, hx.NopMetrics{}, el, nil)
		fetches := 0
		revision.VerifSetRoundTripper(rs, roundTripFunc(func(req *http.Request) (*http.Response, error) {
			fetches++
			return &http.Response{StatusCode: 503, Status: "503 Service Unavailable", Proto: "HTTP/1.1", ProtoMajor: 1, ProtoMinor: 1, Header: http.Header{}, Body: ioutil.NopCloser(bytes.NewReader([]byte("leader is busy"))), Request: req}, nil
		}))
		errs := make([]error, readers)
		vrt.BeginExplore()
		var ths []*vrt.Thread
		for i := 0; i < readers; i++ {
			i := i
			ths = append(ths, vrt.Go(func() { errs[i] = rs.SyncReadRevision() }))
		}
		for _, t := range ths {
			vrt.Join(t)
		}
		vrt.EndExplore()
		served := 0
		for i, err := range errs {
			if err == nil {
				served++
				x.Fail("C18|follower-reads-without-leader-revision|shared-failed-fetch", "read %d of %d overlapping follower reads was told the synchronisation succeeded although every status request (%d made) was answered 503; it is served at the follower's own revision %d", i, readers, fetches, int64(vatomic.LoadUint64(&foll.rev))-base)
			}
		}
		x.Obs = fmt.Sprintf("fetches=%d served=%d", fetches, served)
	}}
}

func init() {
	mc.Register(&mc.Property{
		ID:     "C18",
		Level:  "model_checking",
		Rule:   "(a) the full configuration matrix, every cell executed: 25 request types of both APIs (etcd Range get/list/count/partitions, Txn create/update/delete/compact/invalid, Watch pure/non-pure/range-stream/cancel, Compact, LeaseGrant; native Create/Update/Delete/Compact/Get/Range/Count/ListPartition/RangeStream/Watch) x {leader, follower} x {proxy off, on} x leader {reachable, connection refused, HTTP 400 with text, HTTP 200 with a body that is not JSON, HTTP 503 with a JSON error body, HTTP 500 with a revision-shaped JSON body} = 600 cells, through the real etcd and native servers with the REAL revision syncer against an in-process HTTP endpoint and a recording backend; (b) every schedule (preemption-bounded, state cache) of 2 follower range reads against a leader committing 1-2 writes on the shared store, single-flight group compiled against the scheduler; and of 2-3 overlapping follower reads against a leader that answers every status request with an error (every read must fail)",
		Assume: []string{"an HTTP round trip is one atomic step of the calling thread", "the etcd proxy is a recording stub (the real proxy needs a gRPC connection to a live leader)"},
		Exec:   c18Exec,
		Scenarios: func(tier string) []*mc.Scenario {
			out := []*mc.Scenario{c18SyncScenario(2, 1), c18SyncScenario(2, 2), c18SyncScenario(3, 1), c18SyncFailScenario(2), c18SyncFailScenario(3)}
			if tier == "thorough" {
				out = append(out, c18SyncScenario(3, 2), c18SchedScenario(2, 1))
			}
			return out
		},
		Drive: func(c *mc.Ctx) {
			n := len(c18Cases())
			chunk := 10
			for from := 0; from < n; from += chunk {
				e, _ := json.Marshal(c18Job{from, from + chunk})
				c.Pool.Submit(mc.Job{Prop: "C18", Kind: "matrix", Tier: c.Tier, Extra: e}, func(j mc.Job, r *mc.JobResult) { c.Agg.Add(j, r) })
			}
			c.Pool.Wait()
			cells := c.Agg.Execs
			mc.DriveSchedules(c, func(i int, sc *mc.Scenario) mc.SchedPlan {
				p := mc.SchedPlan{Class: "syncer-schedules", Bounds: []int{0, 1, 2, 3, 4, 5}, Shard: true}
				if strings.Contains(sc.Name, "readers=3") {
					p.Bounds = []int{0, 1, 2, 3}
					if c.Tier == "thorough" {
						p.Bounds = []int{0, 1, 2, 3, 4}
					}
				}
				if strings.Contains(sc.Name, "readers=2") && c.Tier == "thorough" {
					p.Bounds = []int{0, 1, 2, 3, 4, 5, 6, 7, 64}
				}
				if strings.Contains(sc.Name, "/sched/") {
					p = mc.SchedPlan{Class: "full-node-schedules", Bounds: []int{0, 1}, Shard: true}
				}
				return p
			})
			c.Cov["matrix_cells"] = cells
		},
	})
}
