package props

import (
	"context"
	"encoding/json"
	"fmt"
	"strings"
	"time"

	pb "go.etcd.io/etcd/api/v3/etcdserverpb"
	"go.etcd.io/etcd/api/v3/mvccpb"

	"github.com/kubewharf/kubebrain/pkg/server/etcd"
	"github.com/kubewharf/kubebrain/zz_verif/h/hx"
	"github.com/kubewharf/kubebrain/zz_verif/h/mc"
	"github.com/kubewharf/kubebrain/zz_verif/rt/vrt"
)

// C16 — the etcd-facing API answers Kubernetes' requests as etcd would.

type etcdWorld struct {
	*world
	srv    *etcd.RPCServer
	peers  *hx.Peers
	ws     *hx.WatchStream
	ws2    *hx.WatchStream // a second watch opened later in the history at an explicit start revision
	start2 uint64
	m      *mvcc
}

func newEtcdWorld(watch bool) *etcdWorld {
	w := newWorldCompat(hx.Mem, 64, true)
	ew := &etcdWorld{world: w, peers: &hx.Peers{Leader: true, LeaderAddr: "127.0.0.1:1"}, m: newMvcc()}
	ew.srv = etcd.New(w.b, hx.NopMetrics{}, ew.peers)
	if watch {
		ew.ws = hx.NewWatchStream()
		ws := ew.ws
		vrt.GoDaemon(func() { _ = ew.srv.Watch(ws) })
		ws.Push(&pb.WatchRequest{RequestUnion: &pb.WatchRequest_CreateRequest{CreateRequest: &pb.WatchCreateRequest{Key: []byte("/r/"), RangeEnd: []byte("/r0"), PrevKv: true}}})
		vrt.Quiesce()
	}
	return ew
}

func cmpMod(key string, rev int64) *pb.Compare {
	return &pb.Compare{Target: pb.Compare_MOD, Result: pb.Compare_EQUAL, Key: []byte(key), TargetUnion: &pb.Compare_ModRevision{ModRevision: rev}}
}
func opPut(key, val string) *pb.RequestOp {
	return &pb.RequestOp{Request: &pb.RequestOp_RequestPut{RequestPut: &pb.PutRequest{Key: []byte(key), Value: []byte(val)}}}
}
func opRange(key string) *pb.RequestOp {
	return &pb.RequestOp{Request: &pb.RequestOp_RequestRange{RequestRange: &pb.RangeRequest{Key: []byte(key)}}}
}
func opDel(key string) *pb.RequestOp {
	return &pb.RequestOp{Request: &pb.RequestOp_RequestDeleteRange{RequestDeleteRange: &pb.DeleteRangeRequest{Key: []byte(key)}}}
}

func txnCreate(key, val string) *pb.TxnRequest {
	return &pb.TxnRequest{Compare: []*pb.Compare{cmpMod(key, 0)}, Success: []*pb.RequestOp{opPut(key, val)}}
}
func txnUpdate(key, val string, rev int64) *pb.TxnRequest {
	return &pb.TxnRequest{Compare: []*pb.Compare{cmpMod(key, rev)}, Success: []*pb.RequestOp{opPut(key, val)}, Failure: []*pb.RequestOp{opRange(key)}}
}
func txnDelete(key string, rev int64) *pb.TxnRequest {
	return &pb.TxnRequest{Compare: []*pb.Compare{cmpMod(key, rev)}, Success: []*pb.RequestOp{opDel(key)}, Failure: []*pb.RequestOp{opRange(key)}}
}
func txnDeleteUnguarded(key string) *pb.TxnRequest {
	return &pb.TxnRequest{Success: []*pb.RequestOp{opRange(key), opDel(key)}}
}

// history alphabet: 7 request kinds x 2 keys
var c16Keys = []string{"/r/a", "/r/a/b", "/r/ab"}
var c16Kinds = []string{"create", "update-correct", "update-stale", "update-zero", "delete-correct", "delete-stale", "delete-unguarded"}

func etcdKvsString(kvs []*mvccpb.KeyValue) string {
	var s []string
	for _, kv := range kvs {
		s = append(s, fmt.Sprintf("%s=%s@%d", kv.Key, kv.Value, kv.ModRevision-base))
	}
	return "[" + strings.Join(s, " ") + "]"
}

func sameEtcdKvs(got []*mvccpb.KeyValue, want []mkv) bool {
	if len(got) != len(want) {
		return false
	}
	for i := range got {
		if string(got[i].Key) != want[i].key || string(got[i].Value) != want[i].val || uint64(got[i].ModRevision) != want[i].rev {
			return false
		}
	}
	return true
}

func (w *etcdWorld) fail(out *mc.SeqOut, sig, f string, a ...interface{}) {
	sig = "C16|" + sig
	for _, v := range out.Viols {
		if v.Sig == sig {
			return
		}
	}
	out.Viols = append(out.Viols, mc.Violation{Sig: sig, Detail: fmt.Sprintf(f, a...)})
}

// step performs one K8s-shaped transaction and compares the answer with etcd semantics.
func (w *etcdWorld) step(out *mc.SeqOut, a int) bool {
	key := c16Keys[a/len(c16Kinds)]
	kind := c16Kinds[a%len(c16Kinds)]
	l, had := w.m.latest(key)
	isLive := had && !l.deleted
	cur := int64(0) // etcd: mod revision of a key that does not exist is 0
	if isLive {
		cur = int64(l.rev)
	}
	stale := int64(base - 1)
	if vs := w.m.keys[key]; len(vs) >= 2 && !vs[len(vs)-2].deleted {
		stale = int64(vs[len(vs)-2].rev)
	}
	if stale == cur {
		stale = base - 2
	}
	val := fmt.Sprintf("v%d", len(w.ops)+len(w.m.events)+1)
	var txn *pb.TxnRequest
	var wantOK bool
	var rk reqKind
	switch kind {
	case "create":
		txn, wantOK, rk = txnCreate(key, val), !isLive, rCreate
	case "update-correct":
		if !isLive {
			cur = base // a revision the key does not have
		}
		txn, wantOK, rk = txnUpdate(key, val, cur), isLive, rUpdOK
	case "update-stale":
		txn, wantOK, rk = txnUpdate(key, val, stale), false, rUpdOK
	case "update-zero":
		txn, wantOK, rk = txnUpdate(key, val, 0), !isLive, rCreate
	case "delete-correct":
		if !isLive {
			cur = base
		}
		txn, wantOK, rk = txnDelete(key, cur), isLive, rDelOK
	case "delete-stale":
		txn, wantOK, rk = txnDelete(key, stale), false, rDelOK
	case "delete-unguarded":
		txn, wantOK, rk = txnDeleteUnguarded(key), isLive, rDel0
	}
	resp, err := w.srv.Txn(context.Background(), txn)
	vrt.Quiesce()
	out.Evals++
	if err != nil {
		w.fail(out, "supported-shape-rejected|"+kind, "%s on %s (key state %v) returned error %v", kind, key, w.m.keys[key], err)
		return false
	}
	if kind != "delete-unguarded" && resp.Succeeded != wantOK {
		w.fail(out, "success-flag|"+kind, "%s on %s (versions %v): succeeded=%v, etcd would answer %v", kind, key, w.m.keys[key], resp.Succeeded, wantOK)
		return false
	}
	var cw []mkv
	if isLive {
		cw = []mkv{{key, l.val, l.rev}}
	}
	switch {
	case kind == "delete-unguarded":
		// Kubernetes reads the previous key-value from the first response
		if len(resp.Responses) == 0 || resp.Responses[0].GetResponseRange() == nil {
			w.fail(out, "unguarded-delete-response", "no range response in %v", resp)
			return false
		}
		if got := resp.Responses[0].GetResponseRange().Kvs; !sameEtcdKvs(got, cw) {
			w.fail(out, "unguarded-delete-prev-kv", "unguarded delete of %s returned previous kv %s, the key held %s", key, etcdKvsString(got), mkvString(cw))
			return false
		}
	case !wantOK && strings.HasPrefix(kind, "create"):
	case !wantOK:
		// failure branch: the current key-value
		if len(resp.Responses) == 0 || resp.Responses[0].GetResponseRange() == nil {
			w.fail(out, "failure-branch-missing|"+kind, "failed %s on %s: no range response in the failure branch: %v", kind, key, resp)
			return false
		}
		if got := resp.Responses[0].GetResponseRange().Kvs; !sameEtcdKvs(got, cw) {
			w.fail(out, "failure-branch-kv|"+kind, "failed %s on %s returned %s in the failure branch, the key holds %s", kind, key, etcdKvsString(got), mkvString(cw))
			return false
		}
		for _, kv := range resp.Responses[0].GetResponseRange().Kvs {
			if resp.Header.GetRevision() < kv.ModRevision {
				w.fail(out, "header-below-data", "header %d below %d", resp.Header.GetRevision(), kv.ModRevision)
			}
		}
	}
	effective := wantOK
	if effective {
		rev := uint64(resp.Header.GetRevision())
		if rev <= w.m.maxRev {
			w.fail(out, "revision-not-increasing", "%s on %s answered revision %d, not above %d", kind, key, rev, w.m.maxRev)
			return false
		}
		w.m.apply(rk, key, val, rev)
	}
	return true
}

// readBack: point and range reads through the etcd Range call against etcd semantics.
func (w *etcdWorld) readBack(out *mc.SeqOut) {
	committed := w.b.GetCurrentRevision()
	revs := []uint64{0}
	for r := uint64(base + 1); r <= committed; r++ {
		revs = append(revs, r)
	}
	for _, r := range revs {
		mr := r
		if r == 0 {
			mr = committed
		}
		for _, k := range c16Keys {
			out.Evals++
			resp, err := w.srv.Range(context.Background(), &pb.RangeRequest{Key: []byte(k), Revision: int64(r)})
			if err != nil {
				w.fail(out, "get-error", "Range(%s, rev %d): %v", k, int64(r)-base, err)
				continue
			}
			var want []mkv
			if v, ok := w.m.at(k, mr); ok {
				want = []mkv{{k, v.val, v.rev}}
			}
			if !sameEtcdKvs(resp.Kvs, want) || int(resp.Count) != len(want) || resp.More {
				w.fail(out, "point-read", "Range(%s, rev %d) = %s count %d more %v; etcd would return %s", k, int64(r)-base, etcdKvsString(resp.Kvs), resp.Count, resp.More, mkvString(want))
			}
		}
		for i, s := range c03Bounds {
			for _, e := range c03Bounds[i+1:] {
				full, _ := w.m.list(s, e, mr, 0)
				for limit := 0; limit <= len(full)+1; limit++ {
					out.Evals++
					resp, err := w.srv.Range(context.Background(), &pb.RangeRequest{Key: []byte(s), RangeEnd: []byte(e), Revision: int64(r), Limit: int64(limit)})
					if err != nil {
						w.fail(out, "range-error", "Range[%s,%s) rev %d limit %d: %v", s, e, int64(r)-base, limit, err)
						continue
					}
					want, more := w.m.list(s, e, mr, limit)
					if !sameEtcdKvs(resp.Kvs, want) || resp.More != more {
						w.fail(out, "range-read", "Range[%s,%s) rev %d limit %d = %s more=%v; etcd would return %s more=%v", s, e, int64(r)-base, limit, etcdKvsString(resp.Kvs), resp.More, mkvString(want), more)
					}
					if int(resp.Count) != len(full) {
						cls := "count"
						if more {
							cls = "count-of-a-limited-range"
						}
						w.fail(out, cls, "Range[%s,%s) rev %d limit %d answers count %d; etcd reports the total number of keys in the range, %d", s, e, int64(r)-base, limit, resp.Count, len(full))
					}
				}
				if r == 0 {
					out.Evals++
					resp, err := w.srv.Range(context.Background(), &pb.RangeRequest{Key: []byte(s), RangeEnd: []byte(e), CountOnly: true})
					if err != nil {
						w.fail(out, "count-error", "count-only Range[%s,%s): %v", s, e, err)
					} else if int(resp.Count) != len(full) || len(resp.Kvs) != 0 {
						w.fail(out, "count-only", "count-only Range[%s,%s) answers count %d with %d kvs; etcd would answer %d", s, e, resp.Count, len(resp.Kvs), len(full))
					}
				}
			}
		}
	}
}

// checkWatch compares what the prefix watch emitted with the model's events.
func (w *etcdWorld) checkWatch(out *mc.SeqOut) {
	if w.ws == nil {
		return
	}
	w.checkWatchStream(out, w.ws, 0, "")
	if w.ws2 != nil {
		w.checkWatchStream(out, w.ws2, w.start2, "|explicit-start-revision")
	}
}

func (w *etcdWorld) checkWatchStream(out *mc.SeqOut, ws *hx.WatchStream, start uint64, cls string) {
	var got []string
	created := false
	for _, r := range ws.Sent {
		if r.Created {
			created = true
			continue
		}
		if r.Canceled {
			got = append(got, "canceled:"+r.CancelReason)
			continue
		}
		if len(r.Events) > 0 && r.Header.GetRevision() != r.Events[len(r.Events)-1].Kv.ModRevision {
			w.fail(out, "watch-header", "watch response header revision %d, last event revision %d", r.Header.GetRevision(), r.Events[len(r.Events)-1].Kv.ModRevision)
		}
		for _, e := range r.Events {
			s := fmt.Sprintf("%s %s@%d", e.Type, e.Kv.Key, e.Kv.ModRevision-base)
			if e.Type == mvccpb.PUT {
				s += "=" + string(e.Kv.Value)
			} else if e.PrevKv != nil {
				s += fmt.Sprintf(" prev=%s@%d", e.PrevKv.Value, e.PrevKv.ModRevision-base)
			} else {
				s += " prev=nil"
			}
			got = append(got, s)
		}
	}
	if !created {
		w.fail(out, "watch-not-created", "no created response")
	}
	var want []string
	for _, e := range w.m.events {
		if e.rev < start {
			continue
		}
		if e.kind == "delete" {
			want = append(want, fmt.Sprintf("DELETE %s@%d prev=%s@%d", e.key, int64(e.rev)-base, e.val, int64(e.prevRev)-base))
		} else {
			want = append(want, fmt.Sprintf("PUT %s@%d=%s", e.key, int64(e.rev)-base, e.val))
		}
	}
	if strings.Join(got, "; ") != strings.Join(want, "; ") {
		w.fail(out, "watch-events"+cls, "the prefix watch from revision %d emitted [%s]; etcd would emit [%s]", int64(start)-base, strings.Join(got, "; "), strings.Join(want, "; "))
	}
}

// ---- schedules: a watch opened at a past revision while a client writes ----
//
// The watch server answers a create request with a "created" response and runs the watch in its own
// goroutine; a client discards events for a watch id it has not been told about.

func c16WatchScenario(writes int) *mc.Scenario {
	return &mc.Scenario{Name: fmt.Sprintf("C16/sched/watch-from-a-past-revision/concurrent-writes=%d", writes), Body: func(x *mc.X) {
		out := &mc.SeqOut{}
		w := newEtcdWorld(false)
		defer w.close()
		// two creates before the watch: step 0 = create of the first key, then create of the second key
		for _, a := range []int{0, len(c16Kinds)} {
			if !w.step(out, a) {
				panic("setup failed: " + out.Viols[0].Detail)
			}
		}
		start := uint64(base + 1)
		ws := hx.NewWatchStream()
		vrt.BeginExplore()
		vrt.GoDaemon(func() { _ = w.srv.Watch(ws) })
		t1 := vrt.Go(func() {
			ws.Push(&pb.WatchRequest{RequestUnion: &pb.WatchRequest_CreateRequest{CreateRequest: &pb.WatchCreateRequest{Key: []byte("/r/"), RangeEnd: []byte("/r0"), PrevKv: true, StartRevision: int64(start)}}})
		})
		t2 := vrt.Go(func() {
			for i := 0; i < writes; i++ {
				// update-correct of the first key
				w.step(out, 1)
			}
		})
		vrt.Join(t1)
		vrt.Join(t2)
		vrt.Quiesce()
		vrt.EndExplore()
		created := false
		for i, r := range ws.Sent {
			if r.Created {
				created = true
			}
			if len(r.Events) > 0 && !created {
				w.fail(out, "watch-events-before-created", "response %d of the stream carries %d events for watch id %d before the created response for that id", i, len(r.Events), r.WatchId)
			}
		}
		w.checkWatchStream(out, ws, start, "|concurrent-writer")
		ws.Cancel()
		vrt.Quiesce()
		x.Viols = append(x.Viols, out.Viols...)
		x.Obs = fmt.Sprintf("responses=%d", len(ws.Sent))
		w.clean = true
	}}
}

func c16Run(_ int, hist []int) *mc.SeqOut {
	out := &mc.SeqOut{}
	w := newEtcdWorld(true)
	defer w.close()
	for i, a := range hist {
		if !w.step(out, a) {
			return out
		}
		if i == 0 && len(hist) > 1 {
			// a second watch from "the next revision", opened after the first request
			w.start2 = w.b.GetCurrentRevision() + 1
			w.ws2 = hx.NewWatchStream()
			ws2 := w.ws2
			vrt.GoDaemon(func() { _ = w.srv.Watch(ws2) })
			ws2.Push(&pb.WatchRequest{RequestUnion: &pb.WatchRequest_CreateRequest{CreateRequest: &pb.WatchCreateRequest{Key: []byte("/r/"), RangeEnd: []byte("/r0"), PrevKv: true, StartRevision: int64(w.start2)}}})
			vrt.Quiesce()
		}
		if i == len(hist)-1 {
			w.readBack(out)
		}
	}
	w.checkWatch(out)
	for _, ws := range []*hx.WatchStream{w.ws, w.ws2} {
		if ws != nil {
			ws.Cancel()
			ws.CloseSend()
		}
	}
	vrt.Quiesce()
	// the count of a limited range is a known deviation: it must not stop the search
	var keep []mc.Violation
	for _, v := range out.Viols {
		if v.Sig == "C16|count-of-a-limited-range" {
			out.Known = append(out.Known, v)
		} else {
			keep = append(keep, v)
		}
	}
	out.Viols = keep
	out.Key = w.m.canon()
	out.Obs = out.Key
	w.clean = true
	return out
}

// ---------------------------------------------------------------------------------------------
// transaction grammar: structurally valid transactions; only the four Kubernetes shapes (and the
// compaction marker) may be executed, everything else must be rejected and change nothing.

type gCompare struct {
	target pb.Compare_CompareTarget
	result pb.Compare_CompareResult
	key    int // 0 = K, 1 = K2
	rev    int // MOD: 0 = zero, 1 = current revision of K
}

type gOp struct {
	kind string // put del range txn
	key  int
	flag string // "", ignore-value, ignore-lease, prev-kv, range-end
}

type gShape struct {
	cmps []gCompare
	succ []gOp
	fail []gOp
}

func (g gShape) String() string {
	var c, s, f []string
	for _, x := range g.cmps {
		c = append(c, fmt.Sprintf("%s%s(k%d,%d)", x.target, x.result, x.key, x.rev))
	}
	for _, x := range g.succ {
		s = append(s, fmt.Sprintf("%s(k%d%s)", x.kind, x.key, x.flag))
	}
	for _, x := range g.fail {
		f = append(f, fmt.Sprintf("%s(k%d%s)", x.kind, x.key, x.flag))
	}
	return "if[" + strings.Join(c, ",") + "] then[" + strings.Join(s, ",") + "] else[" + strings.Join(f, ",") + "]"
}

func c16Grammar() []gShape {
	var cmpOne []gCompare
	for _, tg := range []pb.Compare_CompareTarget{pb.Compare_MOD, pb.Compare_VERSION, pb.Compare_CREATE, pb.Compare_VALUE} {
		for _, rs := range []pb.Compare_CompareResult{pb.Compare_EQUAL, pb.Compare_NOT_EQUAL, pb.Compare_GREATER, pb.Compare_LESS} {
			for k := 0; k < 2; k++ {
				if tg == pb.Compare_MOD {
					cmpOne = append(cmpOne, gCompare{tg, rs, k, 0}, gCompare{tg, rs, k, 1})
				} else {
					cmpOne = append(cmpOne, gCompare{tg, rs, k, 0})
				}
			}
		}
	}
	cmps := [][]gCompare{nil}
	for _, c := range cmpOne {
		cmps = append(cmps, []gCompare{c})
	}
	canon := gCompare{pb.Compare_MOD, pb.Compare_EQUAL, 0, 1}
	canon0 := gCompare{pb.Compare_MOD, pb.Compare_EQUAL, 0, 0}
	for _, second := range []gCompare{canon, canon0, {pb.Compare_MOD, pb.Compare_EQUAL, 1, 1}, {pb.Compare_VERSION, pb.Compare_EQUAL, 0, 0}, {pb.Compare_VALUE, pb.Compare_EQUAL, 0, 0}} {
		cmps = append(cmps, []gCompare{canon, second}, []gCompare{canon0, second})
	}
	ops := []gOp{{"put", 0, ""}, {"put", 1, ""}, {"put", 0, "ignore-value"}, {"put", 0, "ignore-lease"}, {"put", 0, "prev-kv"},
		{"del", 0, ""}, {"del", 1, ""}, {"del", 0, "range-end"}, {"del", 0, "prev-kv"}, {"range", 0, ""}, {"range", 1, ""}, {"range", 0, "range-end"}, {"txn", 0, ""}}
	succ := [][]gOp{nil}
	for _, a := range ops {
		succ = append(succ, []gOp{a})
		for _, b := range ops {
			succ = append(succ, []gOp{a, b})
		}
	}
	fails := [][]gOp{nil, {{"range", 0, ""}}, {{"range", 1, ""}}, {{"put", 0, ""}}, {{"range", 0, "range-end"}}}
	var out []gShape
	for _, c := range cmps {
		for _, s := range succ {
			for _, f := range fails {
				out = append(out, gShape{c, s, f})
			}
		}
	}
	return out
}

const gK, gK2 = "/r/k", "/r/k2"

func (g gShape) build(curRev int64) *pb.TxnRequest {
	key := func(i int) string {
		if i == 0 {
			return gK
		}
		return gK2
	}
	mkOp := func(o gOp) *pb.RequestOp {
		switch o.kind {
		case "put":
			p := &pb.PutRequest{Key: []byte(key(o.key)), Value: []byte("new")}
			switch o.flag {
			case "ignore-value":
				p.IgnoreValue = true
			case "ignore-lease":
				p.IgnoreLease = true
			case "prev-kv":
				p.PrevKv = true
			}
			return &pb.RequestOp{Request: &pb.RequestOp_RequestPut{RequestPut: p}}
		case "del":
			d := &pb.DeleteRangeRequest{Key: []byte(key(o.key))}
			if o.flag == "range-end" {
				d.RangeEnd = []byte("/r0")
			}
			if o.flag == "prev-kv" {
				d.PrevKv = true
			}
			return &pb.RequestOp{Request: &pb.RequestOp_RequestDeleteRange{RequestDeleteRange: d}}
		case "range":
			r := &pb.RangeRequest{Key: []byte(key(o.key))}
			if o.flag == "range-end" {
				r.RangeEnd = []byte("/r0")
			}
			return &pb.RequestOp{Request: &pb.RequestOp_RequestRange{RequestRange: r}}
		}
		return &pb.RequestOp{Request: &pb.RequestOp_RequestTxn{RequestTxn: &pb.TxnRequest{Success: []*pb.RequestOp{opPut(gK, "nested")}}}}
	}
	t := &pb.TxnRequest{}
	for _, c := range g.cmps {
		cp := &pb.Compare{Target: c.target, Result: c.result, Key: []byte(key(c.key))}
		switch c.target {
		case pb.Compare_MOD:
			rev := int64(0)
			if c.rev == 1 {
				rev = curRev
			}
			cp.TargetUnion = &pb.Compare_ModRevision{ModRevision: rev}
		case pb.Compare_VERSION:
			cp.TargetUnion = &pb.Compare_Version{Version: 0}
		case pb.Compare_CREATE:
			cp.TargetUnion = &pb.Compare_CreateRevision{CreateRevision: 0}
		case pb.Compare_VALUE:
			cp.TargetUnion = &pb.Compare_Value{Value: []byte("v")}
		}
		t.Compare = append(t.Compare, cp)
	}
	for _, o := range g.succ {
		t.Success = append(t.Success, mkOp(o))
	}
	for _, o := range g.fail {
		t.Failure = append(t.Failure, mkOp(o))
	}
	return t
}

// supported: is the shape one of the four Kubernetes shapes (all on key K)?  It returns the request
// kind and the expected revision selector.
func (g gShape) supported(cur int64) (kind string, ok bool) {
	// all operations on one and the same key
	k := -1
	same := true
	for _, c := range g.cmps {
		if k >= 0 && c.key != k {
			same = false
		}
		k = c.key
	}
	for _, o := range append(append([]gOp{}, g.succ...), g.fail...) {
		if k >= 0 && o.key != k {
			same = false
		}
		k = o.key
	}
	if !same {
		return "", false
	}
	plain := func(o gOp, kd string) bool { return o.kind == kd && o.flag == "" }
	modEq := len(g.cmps) == 1 && g.cmps[0].target == pb.Compare_MOD && g.cmps[0].result == pb.Compare_EQUAL
	zero := modEq && (g.cmps[0].rev == 0 || cur == 0) // the revision actually sent is 0
	switch {
	case modEq && zero && len(g.succ) == 1 && plain(g.succ[0], "put") && len(g.fail) == 0:
		kind = "create"
	case modEq && len(g.succ) == 1 && plain(g.succ[0], "put") && len(g.fail) == 1 && plain(g.fail[0], "range"):
		kind = "update"
	case modEq && len(g.succ) == 1 && plain(g.succ[0], "del") && len(g.fail) == 1 && plain(g.fail[0], "range"):
		// a guarded delete names a revision; with revision 0 the comparison could only hold for a key
		// that does not exist, which Kubernetes never asks: it must not be run as an unconditional delete
		if zero {
			return "", false
		}
		kind = "delete"
	case len(g.cmps) == 0 && len(g.succ) == 2 && plain(g.succ[0], "range") && plain(g.succ[1], "del") && len(g.fail) == 0:
		kind = "delete-unguarded"
	default:
		return "", false
	}
	if k == 1 {
		return "other-key", true // the same shapes on the second key: supported, outcome not modelled here
	}
	return kind, true
}

type c16GJob struct{ From, To int }

func c16GrammarExec(j *mc.Job) *mc.JobResult {
	var gj c16GJob
	json.Unmarshal(j.Extra, &gj)
	shapes := c16Grammar()
	res := &mc.JobResult{Outcomes: map[string]int{}}
	for i := gj.From; i < gj.To && i < len(shapes); i++ {
		if j.Until > 0 && time.Now().UnixMilli() > j.Until {
			res.Cut = true
			break
		}
		g := shapes[i]
		for st := 0; st < 3; st++ { // K absent / live / deleted; K2 always live
			var viol *mc.Violation
			obs := ""
			r := vrt.Run(vrt.Config{Trace: j.Trace}, func() {
				w := newEtcdWorld(false)
				defer w.close()
				w.mustOK(&clientOp{Key: gK2, Kind: rCreate, Val: "k2"})
				cur := int64(0)
				if st >= 1 {
					op := &clientOp{Key: gK, Kind: rCreate, Val: "old"}
					w.mustOK(op)
					cur = int64(op.Hdr)
				}
				if st == 2 {
					w.mustOK(&clientOp{Key: gK, Kind: rDelOK, Exp: uint64(cur)})
					cur = 0
				}
				before := hx.DumpString(w.dump(), base)
				kind, sup := g.supported(cur)
				resp, err := w.srv.Txn(context.Background(), g.build(cur))
				vrt.Quiesce()
				after := hx.DumpString(w.dump(), base)
				stName := []string{"absent", "live", "deleted"}[st]
				switch {
				case !sup && err == nil:
					obs = "unsupported-executed"
					eff := "no change to the store"
					if after != before {
						eff = "store changed from " + before + " to " + after
					}
					viol = &mc.Violation{Sig: "C16|unsupported-shape-not-rejected|" + g.String(), Detail: fmt.Sprintf("transaction %v (key %s %s) is not one of the supported shapes but was answered without error: succeeded=%v, %s", g, gK, stName, resp.GetSucceeded(), eff)}
				case !sup:
					obs = "unsupported-rejected"
					if after != before {
						viol = &mc.Violation{Sig: "C16|rejected-shape-had-effect|" + g.String(), Detail: fmt.Sprintf("transaction %v was rejected (%v) but the store changed from %s to %s", g, err, before, after)}
					}
				case err != nil:
					obs = "supported-error"
					viol = &mc.Violation{Sig: "C16|supported-shape-rejected|" + kind, Detail: fmt.Sprintf("transaction %v (key %s) returned %v", g, stName, err)}
				case kind == "other-key":
					obs = "supported-other-key"
				default:
					obs = "supported-" + kind
					live := st == 1
					want := false
					if kind != "delete-unguarded" {
						sent := int64(0)
						if g.cmps[0].rev == 1 {
							sent = cur
						}
						// etcd: the comparison MOD(key) == sent holds iff the key is live at that revision, or absent and sent == 0
						want = (live && sent == cur && sent != 0) || (!live && sent == 0)
					}
					if kind != "delete-unguarded" && resp.Succeeded != want {
						viol = &mc.Violation{Sig: "C16|grammar-success-flag|" + kind, Detail: fmt.Sprintf("transaction %v (key %s): succeeded=%v, etcd would answer %v", g, stName, resp.Succeeded, want)}
					}
				}
				w.clean = true
			})
			res.Execs++
			res.Steps += r.Steps
			if r.Panic != "" {
				viol = &mc.Violation{Sig: "C16|panic|" + g.String(), Detail: r.Panic}
			}
			res.Outcomes[obs]++
			if viol != nil {
				dup := false
				for _, o := range res.Viols {
					dup = dup || o.Sig == viol.Sig
				}
				if !dup {
					jj := *j
					e, _ := json.Marshal(c16GJob{i, i + 1})
					jj.Extra, jj.Until, jj.Budget = e, 0, 0
					viol.Job = &jj
					res.Viols = append(res.Viols, *viol)
				}
			}
		}
		res.States++
	}
	if len(res.Samples) == 0 && gj.From < len(shapes) {
		res.Samples = []string{shapes[gj.From].String()}
	}
	return res
}

func init() {
	mc.Register(&mc.Property{
		ID:     "C16",
		Level:  "model_checking",
		Rule:   "(a) explicit-state BFS over histories of the four Kubernetes transaction shapes with correct / stale / zero expected revisions on 2 prefix-related keys through the real etcd RPC server (in-memory watch stream, leader role): success flag, failure-branch key-value, revisions, then every point and range read (7 bounds, every limit 0..n+1, every revision, count-only) compared with an etcd reference model, and the prefix watch's PUT/DELETE events with previous key-values; (b) every transaction of a grammar (0-2 compares over 4 targets x 4 results x 2 keys, 0-2 success operations out of 13 incl. flags and nested transactions, 0-1 failure operations; ~21 000 shapes) on 3 store states: only the four shapes on one key may be executed, everything else must return an error and leave the store byte-identical; (c) every schedule (preemption-bounded) of a watch opened at a past revision against 1-2 concurrent updates: the created response precedes every event of its watch id and the events are exactly the changes from the start revision on",
		Assume: []string{"Succeeded is not compared for the unguarded delete shape (Kubernetes reads only the previous key-value there)", "lease arguments are 0; CreateRevision / Version fields are not compared (the property names modification revisions)"},
		Exec: func(j *mc.Job) *mc.JobResult {
			if j.Kind == "grammar" {
				return c16GrammarExec(j)
			}
			return mc.SeqExec(j, c16Run)
		},
		Scenarios: func(tier string) []*mc.Scenario {
			return []*mc.Scenario{c16WatchScenario(1), c16WatchScenario(2)}
		},
		Drive: func(c *mc.Ctx) {
			full := c.Deadline
			c.Deadline = c.Start.Add(full.Sub(c.Start) / 4)
			mc.DriveSchedules(c, func(i int, sc *mc.Scenario) mc.SchedPlan {
				p := mc.SchedPlan{Class: "watch-from-a-past-revision", Bounds: []int{0, 1}, Shard: true}
				if c.Tier == "thorough" {
					p.Bounds = []int{0, 1, 2}
				}
				return p
			})
			c.Deadline = full
			depth := 4
			if c.Tier == "thorough" {
				depth = 7
			}
			st := mc.DriveSeq(c, "bfs", 0, len(c16Keys)*len(c16Kinds), depth)
			n := len(c16Grammar())
			step := 1
			_ = step // the whole grammar runs in both tiers
			chunk := 100
			done := 0
			for from, k := 0, 0; from < n; from, k = from+chunk, k+1 {
				if k%step != 0 {
					continue
				}
				e, _ := json.Marshal(c16GJob{from, from + chunk})
				done += chunk
				c.Pool.Submit(mc.Job{Prop: "C16", Kind: "grammar", Tier: c.Tier, Extra: e, Until: c.Deadline.UnixMilli()}, func(j mc.Job, r *mc.JobResult) { c.Agg.Add(j, r) })
			}
			c.Pool.Wait()
			c.Cov["states"] = st.States
			c.Cov["transitions"] = st.Transitions + c.Agg.Execs
			c.Cov["oracle_evaluations"] = st.Evals
			c.Cov["bfs"] = st
			c.Cov["grammar_shapes"] = n
			c.Cov["grammar_shapes_run"] = done
		},
	})
}
