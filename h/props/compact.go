package props

import (
	"encoding/binary"
	"fmt"
	"sort"
	"strings"

	proto "github.com/kubewharf/kubebrain-client/api/v2rpc"

	"github.com/kubewharf/kubebrain/pkg/backend"
	"github.com/kubewharf/kubebrain/pkg/storage"
	"github.com/kubewharf/kubebrain/zz_verif/h/hx"
	"github.com/kubewharf/kubebrain/zz_verif/h/mc"
	"github.com/kubewharf/kubebrain/zz_verif/rt/vrt"
)

// Compaction histories: shared by C07 (compaction never changes what a read at or above the
// compaction revision sees) and C08 (the floor only rises, reads below it are refused).

type cmpCfg struct {
	engine  string
	keys    []string
	skipped []string
	outside []string // keys written before the history that lie outside the compaction ranges
	depth   [2]int   // quick, thorough
}

var cmpConfigs = []cmpCfg{
	{hx.Mem, []string{"/r/a", "/r/b"}, nil, []string{"/q/out", "/r0x"}, [2]int{7, 8}},
	{hx.Mem, []string{"/r/a", "/r/a/b"}, []string{"/r/x"}, []string{"/r/x/k"}, [2]int{4, 5}},
	{hx.Mem, []string{"/r/a", "/r/a/b"}, []string{"/r/a"}, nil, [2]int{4, 5}}, // the skipped prefix is a prefix of a data key
	{hx.Badger, []string{"/r/a", "/r/b"}, nil, nil, [2]int{3, 3}},
	{hx.TiKV, []string{"/r/a", "/r/b"}, nil, nil, [2]int{3, 3}},
}

// alphabet: writes on the keys, then compactions
type cmpOp struct {
	compact bool
	rev     int64 // compaction: 0, k (= base+k) or -1 (= committed+5)
	w       seqOp
}

func (o cmpOp) String() string {
	if o.compact {
		return fmt.Sprintf("compact(%d)", o.rev)
	}
	return o.w.String()
}

func cmpAlphabet(cfg cmpCfg, depth int) []cmpOp {
	var out []cmpOp
	for k := range cfg.keys {
		out = append(out, cmpOp{w: seqOp{k, rCreate, "v1"}}, cmpOp{w: seqOp{k, rUpdOK, "v2"}}, cmpOp{w: seqOp{k, rDelOK, ""}})
	}
	out = append(out, cmpOp{compact: true, rev: 0}, cmpOp{compact: true, rev: -1})
	for r := 1; r <= depth; r++ {
		out = append(out, cmpOp{compact: true, rev: int64(r)})
	}
	return out
}

type cmpWorld struct {
	*world
	cfg    cmpCfg
	m      *mvcc
	x      *mc.SeqOut
	prop   string
	b2     backend.Backend // C08: a second, long-lived node over the same store that only reads (a follower)
	record uint64  // expected stored compaction record (0 = none yet)
	creqs  []int64 // every compaction request made so far (part of the canonical state: an
	// implementation may remember requests, not only their effect)
	inRange func(key string) bool
}

func newCmpWorld(cfg cmpCfg, prop string, x *mc.SeqOut) *cmpWorld {
	kv, release, err := hx.AcquireEngine(cfg.engine)
	if err != nil {
		panic(err)
	}
	w := &world{engine: cfg.engine}
	w.cleanup = func() { release(!w.clean) }
	w.kv = hx.NewDeco(kv, false)
	w.b = backend.NewBackend(w.kv, backend.Config{Prefix: "/r", Identity: "n1", WatchCacheSize: 16, EnableEtcdCompatibility: true, SkippedPrefixes: cfg.skipped}, hx.NopMetrics{})
	w.b.SetCurrentRevision(base)
	vrt.Quiesce()
	cw := &cmpWorld{world: w, cfg: cfg, m: newMvcc(), x: x, prop: prop}
	if prop == "C08" {
		cw.b2 = backend.NewBackend(w.kv, backend.Config{Prefix: "/r", Identity: "n2", WatchCacheSize: 16, EnableEtcdCompatibility: true, SkippedPrefixes: cfg.skipped}, hx.NopMetrics{})
		cw.b2.SetCurrentRevision(base)
		vrt.Quiesce()
	}
	cw.inRange = func(key string) bool {
		if !(key >= "/r/" && key < "/r0") {
			return false
		}
		for _, s := range cfg.skipped {
			if key >= s+"/" && key < s+"0" {
				return false
			}
		}
		return true
	}
	return cw
}

func (w *cmpWorld) fail(sig, format string, a ...interface{}) {
	if len(w.x.Viols) < 6 {
		w.x.Viols = append(w.x.Viols, mc.Violation{Sig: w.prop + "|" + sig + "|" + w.engine, Detail: fmt.Sprintf(format, a...)})
	}
}

// writeOutside writes the keys that lie outside the compaction ranges directly into the engine, in
// the MVCC layout, with several versions and a tombstone, so that a compaction that strays would
// have something to delete.
func (w *cmpWorld) writeOutside() {
	for _, k := range w.cfg.outside {
		b := w.kv.KvStorage.BeginBatchWrite()
		rb := func(r uint64, tomb bool) []byte {
			v := make([]byte, 8)
			binary.BigEndian.PutUint64(v, r)
			if tomb {
				v = append(v, 0)
			}
			return v
		}
		b.Put(hx.Coder.EncodeRevisionKey([]byte(k)), rb(903, true), 0)
		b.Put(hx.Coder.EncodeObjectKey([]byte(k), 901), []byte("o1"), 0)
		b.Put(hx.Coder.EncodeObjectKey([]byte(k), 902), []byte("o2"), 0)
		b.Put(hx.Coder.EncodeObjectKey([]byte(k), 903), []byte("tombstone"), 0)
		if err := b.Commit(bg); err != nil {
			panic(err)
		}
	}
}

func (w *cmpWorld) outsideDump() string {
	var recs []hx.Rec
	for _, r := range w.dump() {
		if r.Raw {
			continue
		}
		for _, k := range w.cfg.outside {
			if r.Key == k {
				recs = append(recs, r)
			}
		}
	}
	return hx.DumpString(recs, base)
}

// compact performs one compaction request and maintains the expected floor.
func (w *cmpWorld) compact(rev int64) {
	committed := w.b.GetCurrentRevision()
	var req uint64
	switch {
	case rev == 0:
		req = 0
	case rev < 0:
		req = committed + 5
	default:
		req = base + uint64(rev)
	}
	eff := req
	if req == 0 || req > committed {
		eff = committed
	}
	before := w.outsideDump()
	w.creqs = append(w.creqs, int64(eff)-base)
	resp, err := w.b.Compact(bg, req)
	vrt.Quiesce()
	if err != nil {
		w.fail("compact-error", "Compact(%d) failed: %v", req, err)
		return
	}
	if resp.Header.GetRevision() != eff {
		w.fail("compact-header", "Compact(%d) with committed revision %d answered revision %d, expected %d", req, committed, resp.Header.GetRevision(), eff)
	}
	if eff > w.m.floor {
		w.m.floor = eff
	}
	if after := w.outsideDump(); after != before && w.prop == "C07" {
		w.fail("outside-range-touched", "compaction changed records outside the configured ranges: before %s after %s", before, after)
	}
}

// storedRecord reads the compaction record from the engine.
func (w *cmpWorld) storedRecord() (uint64, bool) {
	v, err := w.kv.KvStorage.Get(bg, []byte("/r/compact_key"))
	if err == storage.ErrKeyNotFound || len(v) != 8 {
		return 0, false
	}
	return binary.BigEndian.Uint64(v), true
}

// checkFloor is the C08 oracle after a step.
func (w *cmpWorld) checkFloor() {
	if rec, ok := w.storedRecord(); w.m.floor != 0 && (!ok || rec != w.m.floor) {
		w.fail("record-below-floor", "the stored compaction revision is %d (present=%v) but a compaction at %d has been accepted", int64(rec)-base, ok, int64(w.m.floor)-base)
	}
	w.checkFloorOn(w.b, "")
	if w.b2 != nil {
		// the follower adopts the leader's read revision before it reads (what the revision syncer does)
		w.b2.SetCurrentRevision(w.b.GetCurrentRevision())
		w.checkFloorOn(w.b2, "|second-node")
	}
}

// peekSecondNode lets the second node serve one ordinary read in the current state (whatever it
// remembers from it must not make it serve data below a floor accepted later).
func (w *cmpWorld) peekSecondNode() {
	if w.b2 == nil {
		return
	}
	w.b2.SetCurrentRevision(w.b.GetCurrentRevision())
	w.b2.List(bg, &proto.RangeRequest{Key: []byte("/r/"), End: []byte("/r0")})
	vrt.Quiesce()
}

func (w *cmpWorld) checkFloorOn(node backend.Backend, tag string) {
	committed := w.b.GetCurrentRevision()
	for r := uint64(base + 1); r <= committed; r++ {
		w.x.Evals += 3
		below := r < w.m.floor
		want, _ := w.m.list("/r/", "/r0", r, 0)
		l, err := node.List(bg, &proto.RangeRequest{Key: []byte("/r/"), End: []byte("/r0"), Revision: r})
		if below && err == nil {
			w.fail("served-below-floor|list"+tag, "List at revision %d answered %s although a compaction at revision %d was accepted", int64(r)-base, kvsString(l.Kvs), int64(w.m.floor)-base)
		} else if !below && err != nil {
			w.fail("refused-at-or-above-floor|list"+tag, "List at revision %d (floor %d) failed: %v", int64(r)-base, int64(w.m.floor)-base, err)
		}
		ll, err := node.List(bg, &proto.RangeRequest{Key: []byte("/r/"), End: []byte("/r0"), Revision: r, Limit: 1})
		if below && err == nil {
			w.fail("served-below-floor|limited-list"+tag, "limited List at revision %d answered %s although a compaction at revision %d was accepted", int64(r)-base, kvsString(ll.Kvs), int64(w.m.floor)-base)
		} else if !below && err != nil {
			w.fail("refused-at-or-above-floor|limited-list"+tag, "limited List at revision %d (floor %d) failed: %v", int64(r)-base, int64(w.m.floor)-base, err)
		}
		kvs, serr, nterm := streamOn(node, "/r/", "/r0", r)
		if nterm != 1 {
			w.fail("stream-terminator"+tag, "stream at revision %d ended with %d terminators", int64(r)-base, nterm)
		}
		if below && (serr == "" || len(kvs) > 0) {
			w.fail("served-below-floor|stream"+tag, "streamed range at revision %d delivered %s, error %q, although a compaction at revision %d was accepted", int64(r)-base, kvsString(kvs), serr, int64(w.m.floor)-base)
		} else if !below && serr != "" {
			w.fail("refused-at-or-above-floor|stream"+tag, "streamed range at revision %d (floor %d) failed: %s", int64(r)-base, int64(w.m.floor)-base, serr)
		}
		_ = want
	}
}

// stream drains ListByStream.
func (w *world) stream(start, end string, rev uint64) (kvs []*proto.KeyValue, errStr string, terminators int) {
	return streamOn(w.b, start, end, rev)
}

func streamOn(b backend.Backend, start, end string, rev uint64) (kvs []*proto.KeyValue, errStr string, terminators int) {
	ch, err := b.ListByStream(bg, hx.Coder.EncodeObjectKey([]byte(start), 0), hx.Coder.EncodeObjectKey([]byte(end), 0), rev)
	if err != nil {
		return nil, err.Error(), 1
	}
	for {
		vrt.Recv(ch)
		resp, ok := <-ch
		vrt.Recvd()
		if !ok {
			break
		}
		if resp.RangeResponse != nil && !resp.RangeResponse.More {
			terminators++
			errStr = resp.Err
			continue
		}
		if terminators > 0 {
			errStr += " (data after the terminator)"
		}
		kvs = append(kvs, resp.RangeResponse.GetKvs()...)
	}
	sort.SliceStable(kvs, func(i, j int) bool { return string(kvs[i].Key) < string(kvs[j].Key) })
	return kvs, errStr, terminators
}

// checkReads is the C07 oracle: every read at every revision at or above the floor equals the model.
func (w *cmpWorld) checkReads() {
	committed := w.b.GetCurrentRevision()
	revs := []uint64{0}
	for r := w.m.floor; r <= committed; r++ {
		if r > base {
			revs = append(revs, r)
		}
	}
	for _, r := range revs {
		mr := r
		if r == 0 {
			mr = committed
		}
		for _, k := range w.cfg.keys {
			w.x.Evals++
			g, err := w.b.Get(bg, &proto.GetRequest{Key: []byte(k), Revision: r})
			if err != nil {
				w.fail("get-error", "Get(%s, rev %d) failed: %v", k, int64(r)-base, err)
				continue
			}
			v, ok := w.m.at(k, mr)
			var got []*proto.KeyValue
			if g.Kv != nil {
				got = append(got, g.Kv)
			}
			var want []mkv
			if ok {
				want = append(want, mkv{k, v.val, v.rev})
			}
			if !sameKvs(got, want) {
				sig := "get-changed"
				if len(got) > len(want) {
					sig = "deleted-key-reappears|get"
				} else if len(got) < len(want) {
					sig = "live-key-vanishes|get"
				}
				w.fail(sig, "after compaction at %d, Get(%s, rev %d) returns %s, before compaction the snapshot held %s (versions %v)", int64(w.m.floor)-base, k, int64(r)-base, kvsString(got), mkvString(want), w.m.keys[k])
			}
		}
		w.x.Evals++
		want, _ := w.m.list("/r/", "/r0", mr, 0)
		l, err := w.b.List(bg, &proto.RangeRequest{Key: []byte("/r/"), End: []byte("/r0"), Revision: r})
		if err != nil {
			if w.prop == "C07" {
				w.fail("list-error", "List at revision %d (floor %d) failed: %v", int64(r)-base, int64(w.m.floor)-base, err)
			}
			continue
		}
		if !sameKvs(l.Kvs, want) {
			sig := "list-changed"
			if len(l.Kvs) > len(want) {
				sig = "deleted-key-reappears|list"
			} else if len(l.Kvs) < len(want) {
				sig = "live-key-vanishes|list"
			}
			w.fail(sig, "after compaction at %d, List at revision %d returns %s, before compaction the snapshot held %s", int64(w.m.floor)-base, int64(r)-base, kvsString(l.Kvs), mkvString(want))
		}
	}
}

// canonKey: model state, committed revision and storage, with absolute revisions: the alphabet names
// absolute revisions (Compact(base+k)), so states that differ in them do not have the same futures.
func (w *cmpWorld) canonKey() string {
	var b strings.Builder
	var ks []string
	for k := range w.m.keys {
		ks = append(ks, k)
	}
	sort.Strings(ks)
	for _, k := range ks {
		b.WriteString(k + ":")
		for _, v := range w.m.keys[k] {
			fmt.Fprintf(&b, "%d%v,", int64(v.rev)-base, v.deleted)
		}
	}
	fmt.Fprintf(&b, "|floor=%d|committed=%d|", int64(w.m.floor)-base, int64(w.b.GetCurrentRevision())-base)
	if w.prop == "C08" {
		fmt.Fprintf(&b, "requests=%v|", w.creqs)
	}
	for _, r := range w.dump() {
		if r.Raw {
			if r.Key == "/r/compact_key" && len(r.Val) == 8 {
				fmt.Fprintf(&b, "[rec=%d]", int64(binary.BigEndian.Uint64(r.Val))-base)
			}
			continue
		}
		if !strings.HasPrefix(r.Key, "/r/") {
			continue
		}
		if r.Rev == 0 {
			fmt.Fprintf(&b, "[%s#%d%v]", r.Key, int64(r.IdxRev)-base, r.IdxTomb)
		} else {
			fmt.Fprintf(&b, "[%s@%d]", r.Key, int64(r.Rev)-base)
		}
	}
	return b.String()
}

// step applies one operation of the alphabet.
func (w *cmpWorld) step(o cmpOp) bool {
	if o.compact {
		w.compact(o.rev)
		return len(w.x.Viols) == 0
	}
	return w.applyOp(w.x, w.m, w.prop, w.cfg.keys[o.w.key], o.w)
}

func cmpDepth(cfg cmpCfg, tier string) int {
	if tier == "thorough" {
		return cfg.depth[1]
	}
	return cfg.depth[0]
}

// ---------------------------------------------------------------------------------------------
// C08

func c08Run(tier string) func(cfgIdx int, hist []int) *mc.SeqOut {
	return func(cfgIdx int, hist []int) *mc.SeqOut {
		cfg := cmpConfigs[cfgIdx]
		alpha := cmpAlphabet(cfg, cmpDepth(cfg, tier))
		out := &mc.SeqOut{}
		w := newCmpWorld(cfg, "C08", out)
		defer w.close()
		for i, a := range hist {
			if !w.step(alpha[a]) {
				return out
			}
			w.peekSecondNode()
			if i >= len(hist)-1 {
				w.checkFloor()
				if len(out.Viols) > 0 {
					return out
				}
			}
		}
		out.Key = w.canonKey()
		out.Obs = fmt.Sprintf("floor=%d committed=%d", int64(w.m.floor)-base, int64(w.b.GetCurrentRevision())-base)
		w.clean = true
		return out
	}
}

// ---- C08 schedules: range reads below the revision being compacted, while the compaction runs ----
//
// A read that began before the compaction was accepted may still be served, but only with the
// whole snapshot at its revision: an error or the right data, never what is left of it.

func c08SchedScenario(kind string) *mc.Scenario {
	return &mc.Scenario{Name: "C08/sched/compaction-vs-" + kind + "-below-the-new-floor", Body: func(x *mc.X) {
		so := &mc.SeqOut{}
		cfg := cmpCfg{engine: hx.Mem, keys: []string{"/r/a", "/r/b"}}
		w := newCmpWorld(cfg, "C08", so)
		defer w.close()
		for _, o := range []seqOp{{0, rCreate, "a1"}, {0, rUpdOK, "a2"}, {1, rCreate, "b1"}, {0, rUpdOK, "a3"}, {1, rDelOK, ""}} {
			if !w.applyOp(so, w.m, "C08", cfg.keys[o.key], o) {
				panic("initial history failed")
			}
		}
		R := uint64(base + 4)
		type rd struct {
			rev  uint64
			kvs  []*proto.KeyValue
			err  string
			what string
		}
		var reads []*rd
		vrt.BeginExplore()
		var ths []*vrt.Thread
		ths = append(ths, vrt.Go(func() {
			if _, err := w.b.Compact(bg, R); err != nil {
				x.Fail("C08|compact-error|mem", "%v", err)
			}
		}))
		revs := []uint64{base + 2, base + 3}
		if kind == "stream" {
			revs = []uint64{base + 2} // a streamed read brings its own consumer and channel: one is enough
		}
		for _, rev := range revs {
			r := &rd{rev: rev, what: kind}
			reads = append(reads, r)
			ths = append(ths, vrt.Go(func() {
				switch kind {
				case "list", "limited-list":
					req := &proto.RangeRequest{Key: []byte("/r/"), End: []byte("/r0"), Revision: r.rev}
					if kind == "limited-list" {
						req.Limit = 5 // above the number of keys: the limited path, the whole snapshot
					}
					l, err := w.b.List(bg, req)
					if err != nil {
						r.err = err.Error()
					} else {
						r.kvs = l.Kvs
					}
				default:
					var n int
					r.kvs, r.err, n = w.stream("/r/", "/r0", r.rev)
					if n != 1 {
						x.Fail("C08|stream-terminator|mem", "stream at revision %d ended with %d terminators", int64(r.rev)-base, n)
					}
				}
			}))
		}
		for _, t := range ths {
			vrt.Join(t)
		}
		vrt.Quiesce()
		vrt.EndExplore()
		var outs []string
		for _, r := range reads {
			want, _ := w.m.list("/r/", "/r0", r.rev, 0)
			switch {
			case r.err != "" && len(r.kvs) > 0 && r.what != "stream":
				// (a stream that has sent batches can only report the lost race in its terminator)
				x.Fail("C08|data-and-error-below-floor|"+r.what+"|mem", "%s at revision %d, concurrent with a compaction at %d, delivered %s and then the error %q", r.what, int64(r.rev)-base, int64(R)-base, kvsString(r.kvs), r.err)
			case r.err == "" && !sameKvs(r.kvs, want):
				x.Fail("C08|partial-data-below-floor|"+r.what+"|mem", "%s at revision %d, concurrent with a compaction at %d, answered %s without error; the snapshot at that revision is %s", r.what, int64(r.rev)-base, int64(R)-base, kvsString(r.kvs), mkvString(want))
			}
			outs = append(outs, fmt.Sprintf("%d:%v", int64(r.rev)-base, r.err == ""))
		}
		// afterwards the floor is in force, for both nodes
		w.m.floor = R
		w.record = R
		w.checkFloor()
		x.Viols = append(x.Viols, so.Viols...)
		x.Obs = strings.Join(outs, " ")
		w.clean = true
	}}
}

// c08TwoCompactions: two overlapping compaction requests, the lower one possibly finishing last:
// afterwards the floor is the higher of the accepted revisions, for every read path and both nodes.
func c08TwoCompactions() *mc.Scenario {
	return &mc.Scenario{Name: "C08/sched/two-overlapping-compactions", Body: func(x *mc.X) {
		so := &mc.SeqOut{}
		cfg := cmpCfg{engine: hx.Mem, keys: []string{"/r/a", "/r/b"}}
		w := newCmpWorld(cfg, "C08", so)
		defer w.close()
		for _, o := range []seqOp{{0, rCreate, "a1"}, {0, rUpdOK, "a2"}, {1, rCreate, "b1"}, {0, rUpdOK, "a3"}, {1, rUpdOK, "b2"}} {
			if !w.applyOp(so, w.m, "C08", cfg.keys[o.key], o) {
				panic("initial history failed")
			}
		}
		revs := []uint64{base + 2, base + 4}
		accepted := make([]bool, len(revs))
		vrt.BeginExplore()
		var ths []*vrt.Thread
		for i := range revs {
			i := i
			ths = append(ths, vrt.Go(func() {
				_, err := w.b.Compact(bg, revs[i])
				accepted[i] = err == nil
			}))
		}
		for _, t := range ths {
			vrt.Join(t)
		}
		vrt.Quiesce()
		vrt.EndExplore()
		floor := uint64(0)
		for i, ok := range accepted {
			if ok && revs[i] > floor {
				floor = revs[i]
			}
		}
		w.m.floor, w.record = floor, floor
		if floor != 0 {
			w.checkFloor()
		}
		x.Viols = append(x.Viols, so.Viols...)
		x.Obs = fmt.Sprintf("accepted=%v", accepted)
		w.clean = true
	}}
}

func driveCompactBFS(c *mc.Ctx, cfgs []int) {
	stats := map[string]mc.SeqStats{}
	total := mc.SeqStats{}
	for _, i := range cfgs {
		cfg := cmpConfigs[i]
		d := cmpDepth(cfg, c.Tier)
		st := mc.DriveSeq(c, "bfs", i, len(cmpAlphabet(cfg, d)), d)
		stats[fmt.Sprintf("%d:%s/%s/skipped=%v", i, cfg.engine, strings.Join(cfg.keys, ","), cfg.skipped)] = st
		total.States += st.States
		total.Transitions += st.Transitions
		total.Evals += st.Evals
	}
	c.Cov["states"] = total.States
	c.Cov["transitions"] = total.Transitions
	c.Cov["oracle_evaluations"] = total.Evals
	c.Cov["per_configuration"] = stats
}

func init() {
	mc.Register(&mc.Property{
		ID:    "C08",
		Level: "model_checking",
		Rule: "explicit-state BFS over sequences of writes on 2 keys and compaction requests (revision 0, every revision up to the depth, above the current revision; hence increasing, repeated, decreasing orders), de-duplicated on model state + rank-normalised storage; " +
			"after every step List, limited List and streamed range are issued at every revision from the first to the committed one: refused below the highest accepted compaction revision, served at or above it; the stored compaction record must equal that floor; the same reads are also issued through a second, long-lived node over the same store (a follower that adopted the leader's read revision and served an ordinary read after every step); plus every schedule without preemptions (one preemption for the limited List and in thorough) of a compaction at R against range reads at revisions below R (two Lists; one streamed range; two limited Lists): a List ends with an error or with the whole snapshot at its revision, a stream without error holds the whole snapshot, and afterwards the floor is in force; and of two overlapping compaction requests (afterwards the floor is the higher accepted revision)",
		Assume: []string{"the history search uses a single client and the default schedule, quiescence after every request; reads racing a compaction are covered by the schedule scenarios", "in-memory engine (thorough: badger and tikv-mock at depth 3)"},
		Exec:   func(j *mc.Job) *mc.JobResult { return mc.SeqExec(j, c08Run(j.Tier)) },
		Scenarios: func(tier string) []*mc.Scenario {
			// (a count is always taken at the latest revision: it cannot be below a floor)
			return []*mc.Scenario{c08SchedScenario("list"), c08SchedScenario("stream"), c08SchedScenario("limited-list"), c08TwoCompactions()}
		},
		Drive: func(c *mc.Ctx) {
			full := c.Deadline
			c.Deadline = c.Start.Add(full.Sub(c.Start) / 3)
			mc.DriveSchedules(c, func(i int, sc *mc.Scenario) mc.SchedPlan {
				p := mc.SchedPlan{Class: "compaction-vs-reads-below-the-new-floor", Bounds: []int{0}, Shard: true}
				if c.Tier == "thorough" || strings.Contains(sc.Name, "limited-list") || strings.Contains(sc.Name, "two-overlapping") {
					// (a limited List scans in the caller's own thread: losing the race takes one preemption)
					p.Bounds = []int{0, 1}
				}
				return p
			})
			c.Deadline = full
			if c.Tier == "thorough" {
				driveCompactBFS(c, []int{0, 3, 4})
			} else {
				driveCompactBFS(c, []int{0})
			}
		},
	})
}
