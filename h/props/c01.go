package props

import (
	"github.com/kubewharf/kubebrain/zz_verif/h/hx"
	"github.com/kubewharf/kubebrain/zz_verif/h/mc"
)

// C01 — conditional writes never lose an update.

func c01Configs(tier string) []writeCfg {
	var out []writeCfg
	// every unordered pair of request kinds from every initial state, in-memory engine
	for _, init := range allInits {
		for _, p := range reqPairs() {
			out = append(out, writeCfg{hx.Mem, init, [][]reqKind{{p[0]}, {p[1]}}, "C01"})
		}
	}
	// a representative subset on the engines that are not instrumented (engine call = atomic step)
	rep := [][2]reqKind{{rCreate, rCreate}, {rCreate, rUpd0}, {rUpdOK, rUpdOK}, {rUpdOK, rDelOK}, {rDelOK, rDelOK}, {rDel0, rUpdOK}, {rDel0, rDel0}, {rCreate, rDelOK}, {rUpdStale, rUpdOK}, {rUpdFuture, rUpdOK}}
	for _, eng := range []string{hx.Badger, hx.TiKV} {
		for _, init := range allInits {
			for _, p := range rep {
				if tier == "quick" && !(canSucceed(init, p[0]) && canSucceed(init, p[1])) {
					continue
				}
				out = append(out, writeCfg{eng, init, [][]reqKind{{p[0]}, {p[1]}}, "C01"})
			}
		}
	}
	if tier == "thorough" {
		// three clients
		tri := [][3]reqKind{{rCreate, rCreate, rCreate}, {rUpdOK, rUpdOK, rUpdOK}, {rUpdOK, rDelOK, rCreate}, {rDel0, rUpdOK, rCreate}, {rDelOK, rDelOK, rUpd0}, {rCreate, rDel0, rUpdOK}}
		for _, init := range allInits {
			for _, t := range tri {
				out = append(out, writeCfg{hx.Mem, init, [][]reqKind{{t[0]}, {t[1]}, {t[2]}}, "C01"})
			}
		}
		// two clients, two requests each
		two := [][2][]reqKind{{{rCreate, rUpdOK}, {rCreate, rDel0}}, {{rUpdOK, rUpdOK}, {rUpdOK, rDelOK}}, {{rDel0, rCreate}, {rUpdOK, rUpdOK}}, {{rDelOK, rCreate}, {rDelOK, rCreate}}, {{rCreate, rDelOK}, {rDel0, rUpd0}}}
		for _, init := range allInits {
			for _, t := range two {
				out = append(out, writeCfg{hx.Mem, init, [][]reqKind{t[0], t[1]}, "C01"})
			}
		}
	}
	return out
}

func init() {
	mc.Register(&mc.Property{
		ID:    "C01",
		Level: "model_checking",
		Rule: "every schedule (preemption-bounded DFS, iterative bounds) of 2-3 client threads issuing create/update/delete on one shared key, from 4 initial key states x all pairs of 9 request kinds, executed on the real backend; " +
			"a state is a distinct node of the schedule tree (hash of the operation trace prefix), an outcome is the multiset of client-visible results plus the final key state",
		Assume: []string{
			"scheduling points are the sync/atomic/channel operations of the kubebrain packages and (badger, tikv) every engine call; code between two points is atomic (data-race freedom is C19's subject)",
			"badger / tikv-mock internals are not scheduled: an engine call is one atomic step",
			"capacities shrunk: watchersChanCapacity=100",
			"the commit of a write batch is the linearisation point of a successful write (memkv applies a batch under its store mutex without scheduling points)",
		},
		Scenarios: func(tier string) []*mc.Scenario {
			var out []*mc.Scenario
			for _, c := range c01Configs(tier) {
				out = append(out, writeScenario(c, nil))
			}
			return out
		},
		Drive: func(c *mc.Ctx) {
			cfgs := c01Configs(c.Tier)
			mc.DriveSchedules(c, func(i int, sc *mc.Scenario) mc.SchedPlan {
				cfg := cfgs[i]
				both := true
				for _, t := range cfg.threads {
					both = both && canSucceed(cfg.init, t[0])
				}
				p := mc.SchedPlan{Class: cfg.engine + "/2x1"}
				if len(cfg.threads) == 3 {
					p.Class = cfg.engine + "/3x1"
				} else if len(cfg.threads[0]) > 1 {
					p.Class = cfg.engine + "/2x2"
				}
				if both {
					p.Class += "/contended"
				}
				switch {
				case cfg.engine != hx.Mem:
					p.Bounds = []int{0, 1}
					if c.Tier == "thorough" && both {
						p.Bounds = []int{0, 1, 2}
						p.Shard = true
					}
				case c.Tier == "quick":
					p.Bounds = []int{0, 1}
					if both {
						p.Bounds = []int{0, 1, 2}
					}
				default:
					p.Bounds = []int{0, 1, 2}
					p.Shard = true
					if both && len(cfg.threads) == 2 && len(cfg.threads[0]) == 1 {
						p.Bounds = []int{0, 1, 2, 3}
					}
				}
				return p
			})
		},
	})
}
