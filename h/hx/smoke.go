package hx

import (
	"context"
	"flag"
	"fmt"
	"io/ioutil"
	"time"

	"k8s.io/klog/v2"

	proto "github.com/kubewharf/kubebrain-client/api/v2rpc"

	"github.com/kubewharf/kubebrain/pkg/backend"
	"github.com/kubewharf/kubebrain/pkg/storage/memkv"
	"github.com/kubewharf/kubebrain/zz_verif/rt/vrt"
)

// Quiet silences klog (it would otherwise create files under /tmp and copy errors to stderr).
func Quiet() {
	fs := flag.NewFlagSet("klog", flag.ContinueOnError)
	klog.InitFlags(fs)
	fs.Set("logtostderr", "false")
	fs.Set("alsologtostderr", "false")
	fs.Set("stderrthreshold", "FATAL")
	klog.SetOutput(ioutil.Discard)
}

func Smoke() {
	t0 := time.Now()
	n := 0
	var res *vrt.Result
	for i := 0; i < 2000; i++ {
		var got [2]bool
		var cur uint64
		res = vrt.Run(vrt.Config{Trace: i == 0, GoidChk: true}, func() {
			kv := memkv.NewKvStorage()
			b := backend.NewBackend(kv, backend.Config{Prefix: "/r", Identity: "n1", WatchCacheSize: 8}, NopMetrics{})
			b.SetCurrentRevision(1000)
			vrt.Quiesce()
			vrt.BeginExplore()
			var ths []*vrt.Thread
			for c := 0; c < 2; c++ {
				c := c
				ths = append(ths, vrt.Go(func() {
					r, err := b.Create(context.Background(), &proto.CreateRequest{Key: []byte("/r/a"), Value: []byte(fmt.Sprintf("v%d", c))})
					got[c] = err == nil && r.Succeeded
				}))
			}
			for _, t := range ths {
				vrt.Join(t)
			}
			vrt.Quiesce()
			cur = b.GetCurrentRevision()
		})
		n++
		if res.Panic != "" || res.Deadlock || res.Horizon {
			fmt.Println("BAD", res.Panic, res.Deadlock, res.Horizon, res.Blocked)
			break
		}
		if i == 0 {
			for _, o := range res.Ops {
				fmt.Println(o.Thread, o.Kind, o.Label)
			}
			fmt.Println("got", got, "cur", cur, "decisions", len(res.Choices), res.NCands, "steps", res.Steps)
		}
	}
	fmt.Printf("%d executions in %v\n", n, time.Since(t0))
}
