package hx

import (
	"bytes"
	"context"
	"fmt"
	"io"
	"os"
	"sort"

	"github.com/tikv/client-go/v2/testutils"
	"github.com/tikv/client-go/v2/tikv"

	"github.com/kubewharf/kubebrain/pkg/backend/coder"
	"github.com/kubewharf/kubebrain/pkg/storage"
	ibadger "github.com/kubewharf/kubebrain/pkg/storage/badger"
	"github.com/kubewharf/kubebrain/pkg/storage/memkv"
	itikv "github.com/kubewharf/kubebrain/pkg/storage/tikv"
	"github.com/kubewharf/kubebrain/zz_verif/rt/vrt"
)

// Engine names.
const (
	Mem    = "mem"
	Badger = "badger"
	TiKV   = "tikv"
)

// Coder is the repository's key codec.
var Coder = coder.NewNormalCoder()

// NewEngine creates a fresh engine instance; cleanup releases it.
func NewEngine(kind string, splitKeys ...[]byte) (kv storage.KvStorage, cleanup func(), err error) {
	switch kind {
	case Mem:
		return memkv.NewKvStorage(), func() {}, nil
	case Badger:
		dir, err := os.MkdirTemp(tmpRoot(), "vbadger")
		if err != nil {
			return nil, nil, err
		}
		st, err := ibadger.NewKvStorage(ibadger.Config{Dir: dir})
		if err != nil {
			os.RemoveAll(dir)
			return nil, nil, err
		}
		return st, func() { st.Close(); os.RemoveAll(dir) }, nil
	case TiKV:
		rpcClient, cluster, pdClient, err := testutils.NewMockTiKV("", nil)
		if err != nil {
			return nil, nil, err
		}
		testutils.BootstrapWithMultiRegions(cluster, splitKeys...)
		store, err := tikv.NewTestTiKVStore(rpcClient, pdClient, nil, nil, 0)
		if err != nil {
			return nil, nil, err
		}
		st := itikv.NewKvStoreWithStorage([]*tikv.KVStore{store})
		return st, func() { st.Close() }, nil
	}
	return nil, nil, fmt.Errorf("unknown engine %q", kind)
}

// pooled engines: badger and the tikv mock cluster are expensive to create, so one instance per
// worker process is reused and wiped (every record deleted through the engine API) between
// executions.  The in-memory engine is always fresh.
var enginePool = map[string][]pooled{}

type pooled struct {
	kv      storage.KvStorage
	cleanup func()
	uses    int
}

// engines accumulate garbage versions that slow their iterators down: recycle after a few uses
var maxUses = map[string]int{Badger: 100, TiKV: 20}

// AcquireEngine returns an empty engine; release gives it back (dirty=true discards it).
func AcquireEngine(kind string) (kv storage.KvStorage, release func(dirty bool), err error) {
	if kind == Mem {
		return memkv.NewKvStorage(), func(bool) {}, nil
	}
	var p pooled
	if l := enginePool[kind]; len(l) > 0 {
		p, enginePool[kind] = l[len(l)-1], l[:len(l)-1]
	} else {
		k, c, err := NewEngine(kind)
		if err != nil {
			return nil, nil, err
		}
		p = pooled{k, c, 0}
	}
	p.uses++
	return p.kv, func(dirty bool) {
		if !dirty && p.uses < maxUses[kind] {
			if err := wipe(p.kv); err == nil {
				enginePool[kind] = append(enginePool[kind], p)
				return
			}
		}
		p.cleanup()
	}, nil
}

func wipe(kv storage.KvStorage) (err error) {
	defer func() {
		if r := recover(); r != nil {
			err = fmt.Errorf("wipe: %v", r)
		}
	}()
	for _, r := range Dump(kv) {
		if e := kv.Del(context.Background(), r.Key); e != nil {
			return e
		}
	}
	if n := len(Dump(kv)); n != 0 {
		return fmt.Errorf("wipe left %d records", n)
	}
	return nil
}

func tmpRoot() string {
	if d := os.Getenv("VERIF_TMP"); d != "" {
		return d
	}
	if fi, err := os.Stat("/dev/shm"); err == nil && fi.IsDir() {
		return "/dev/shm"
	}
	return os.TempDir()
}

// ---------------------------------------------------------------------------------------------
// decorator

// BatchOp is one operation of a recorded write batch.
type BatchOp struct {
	Kind string // pine=put-if-not-exist cas put del delcur
	Key  []byte
	Val  []byte
	Old  []byte
}

// BatchRec is one recorded write batch.
type BatchRec struct {
	Thread     string
	Ops        []BatchOp
	BeginStep  int
	CommitStep int // step at which Commit was entered (the batch takes effect atomically there)
	Done       bool
	Err        error
}

// FaultKind says how a scripted fault manifests.
type FaultKind int

const (
	NoFault          FaultKind = iota
	FailPlain                  // plain error, nothing applied
	UncertainApplied           // ErrUncertainResult, batch applied
	UncertainDropped           // ErrUncertainResult, batch not applied
)

// Deco wraps an engine: optional yields before engine calls (interleavable steps for engines that
// are not instrumented), a record of write batches, scripted faults, partition overrides.
type Deco struct {
	storage.KvStorage
	Yield   bool
	Batches []*BatchRec
	// CommitFault decides the fate of the n-th Commit (0-based, counted over this Deco).
	CommitFault func(n int, b *BatchRec) FaultKind
	commits     int
	// DelFault decides the fate of the n-th Del/DelCurrent call (compaction): nil error = proceed.
	DelFault func(n int, cur bool, key []byte) error
	// AfterDel runs after the n-th Del/DelCurrent call returned.
	AfterDel func(n int)
	dels     int
	// Partitions overrides GetPartitions when set.
	Partitions func(start, end []byte) []storage.Partition
	// NoTTL makes SupportTTL report false.
	NoTTL bool
	// Calls counts engine calls by name.
	Calls map[string]int
	// LastGet: the value the last successful Get of (thread|key) returned.
	LastGet map[string][]byte
	// OnCommitDone runs after a Commit returned.
	OnCommitDone func(b *BatchRec)
	// IterFault fails the n-th Iter call.
	IterFault func(n int) error
	iters     int
}

// NewDeco wraps kv.
func NewDeco(kv storage.KvStorage, yield bool) *Deco {
	return &Deco{KvStorage: kv, Yield: yield, Calls: map[string]int{}}
}

func (d *Deco) y(l string) {
	d.Calls[l]++
	if d.Yield {
		vrt.Yield(l)
	}
}

func (d *Deco) SupportTTL() bool {
	if d.NoTTL {
		return false
	}
	return d.KvStorage.SupportTTL()
}

func (d *Deco) GetTimestampOracle(ctx context.Context) (uint64, error) {
	d.y("kv.tso")
	return d.KvStorage.GetTimestampOracle(ctx)
}

func (d *Deco) GetPartitions(ctx context.Context, start, end []byte) ([]storage.Partition, error) {
	d.y("kv.partitions")
	if d.Partitions != nil {
		return d.Partitions(start, end), nil
	}
	return d.KvStorage.GetPartitions(ctx, start, end)
}

func (d *Deco) Get(ctx context.Context, key []byte) ([]byte, error) {
	d.y("kv.get")
	v, err := d.KvStorage.Get(ctx, key)
	if d.LastGet == nil {
		d.LastGet = map[string][]byte{}
	}
	if err == nil {
		d.LastGet[vrt.CurName()+"|"+string(key)] = cp(v)
	} else {
		delete(d.LastGet, vrt.CurName()+"|"+string(key))
	}
	return v, err
}

func (d *Deco) Iter(ctx context.Context, start, end []byte, ts uint64, limit uint64) (storage.Iter, error) {
	d.y("kv.iter")
	n := d.iters
	d.iters++
	if d.IterFault != nil {
		if err := d.IterFault(n); err != nil {
			return nil, err
		}
	}
	it, err := d.KvStorage.Iter(ctx, start, end, ts, limit)
	if err != nil {
		return nil, err
	}
	return &decoIter{Iter: it, d: d}, nil
}

type decoIter struct {
	storage.Iter
	d *Deco
}

func (i *decoIter) Next(ctx context.Context) error {
	if i.d.Yield {
		vrt.Yield("kv.iter.next")
	}
	return i.Iter.Next(ctx)
}

func unwrapIter(it storage.Iter) storage.Iter {
	if di, ok := it.(*decoIter); ok {
		return di.Iter
	}
	return it
}

func (d *Deco) Del(ctx context.Context, key []byte) error {
	d.y("kv.del")
	n := d.dels
	d.dels++
	if d.DelFault != nil {
		if err := d.DelFault(n, false, key); err != nil {
			return err
		}
	}
	err := d.KvStorage.Del(ctx, key)
	if d.AfterDel != nil {
		d.AfterDel(n)
	}
	return err
}

func (d *Deco) DelCurrent(ctx context.Context, it storage.Iter) error {
	d.y("kv.delcur")
	n := d.dels
	d.dels++
	if d.DelFault != nil {
		if err := d.DelFault(n, true, it.Key()); err != nil {
			return err
		}
	}
	err := d.KvStorage.DelCurrent(ctx, unwrapIter(it))
	if d.AfterDel != nil {
		d.AfterDel(n)
	}
	return err
}

// Dels is the number of Del/DelCurrent calls seen so far.
func (d *Deco) Dels() int { return d.dels }

// Commits is the number of Commit calls seen so far.
func (d *Deco) Commits() int { return d.commits }

func (d *Deco) BeginBatchWrite() storage.BatchWrite {
	d.y("kv.begin")
	rec := &BatchRec{Thread: vrt.CurName(), BeginStep: vrt.Steps()}
	d.Batches = append(d.Batches, rec)
	return &decoBatch{BatchWrite: d.KvStorage.BeginBatchWrite(), d: d, rec: rec}
}

type decoBatch struct {
	storage.BatchWrite
	d   *Deco
	rec *BatchRec
}

func cp(b []byte) []byte { return append([]byte(nil), b...) }

func (b *decoBatch) PutIfNotExist(key, val []byte, ttl int64) {
	b.rec.Ops = append(b.rec.Ops, BatchOp{"pine", cp(key), cp(val), nil})
	if b.d.NoTTL {
		ttl = 0 // an engine without native TTL ignores the argument
	}
	b.BatchWrite.PutIfNotExist(key, val, ttl)
}
func (b *decoBatch) CAS(key, newVal, oldVal []byte, ttl int64) {
	b.rec.Ops = append(b.rec.Ops, BatchOp{"cas", cp(key), cp(newVal), cp(oldVal)})
	if b.d.NoTTL {
		ttl = 0
	}
	b.BatchWrite.CAS(key, newVal, oldVal, ttl)
}
func (b *decoBatch) Put(key, val []byte, ttl int64) {
	b.rec.Ops = append(b.rec.Ops, BatchOp{"put", cp(key), cp(val), nil})
	if b.d.NoTTL {
		ttl = 0
	}
	b.BatchWrite.Put(key, val, ttl)
}
func (b *decoBatch) Del(key []byte) {
	b.rec.Ops = append(b.rec.Ops, BatchOp{"del", cp(key), nil, nil})
	b.BatchWrite.Del(key)
}
func (b *decoBatch) DelCurrent(it storage.Iter) {
	b.rec.Ops = append(b.rec.Ops, BatchOp{"delcur", cp(it.Key()), nil, cp(it.Val())})
	b.BatchWrite.DelCurrent(unwrapIter(it))
}

// errInjected is the plain injected engine error.
var ErrInjected = fmt.Errorf("injected engine error")

func (b *decoBatch) Commit(ctx context.Context) error {
	b.d.y("kv.commit")
	n := b.d.commits
	b.d.commits++
	b.rec.CommitStep = vrt.Steps()
	vrt.Mark() // the order of commits relative to calls and returns is observed by the oracles
	fk := NoFault
	if b.d.CommitFault != nil {
		fk = b.d.CommitFault(n, b.rec)
	}
	var err error
	switch fk {
	case NoFault:
		err = b.BatchWrite.Commit(ctx)
	case FailPlain:
		// the real batch must still be released (memkv holds its store mutex from Begin to Commit)
		b.abort(ctx)
		err = ErrInjected
	case UncertainApplied:
		err = b.BatchWrite.Commit(ctx)
		if err == nil {
			err = storage.NewErrUncertainResult(ErrInjected)
		}
	case UncertainDropped:
		b.abort(ctx)
		err = storage.NewErrUncertainResult(ErrInjected)
	}
	b.rec.Done, b.rec.Err = true, err
	if b.d.OnCommitDone != nil {
		b.d.OnCommitDone(b.rec)
	}
	return err
}

// abort releases the underlying batch without applying it: an engine-independent way is to make
// it fail on a condition that cannot hold.
func (b *decoBatch) abort(ctx context.Context) {
	b.BatchWrite.CAS([]byte("\x00verif-abort"), []byte("x"), []byte("never"), 0)
	_ = b.BatchWrite.Commit(ctx)
}

// ---------------------------------------------------------------------------------------------
// storage dump

// KV is one stored record.
type KV struct {
	Key []byte
	Val []byte
}

// Dump returns every record of the engine in key order (raw, undecorated access).
func Dump(kv storage.KvStorage) []KV {
	if d, ok := kv.(*Deco); ok {
		kv = d.KvStorage
	}
	it, err := kv.Iter(context.Background(), []byte{0}, []byte{0xff, 0xff, 0xff, 0xff, 0xff}, 0, 0)
	if err != nil {
		panic(err)
	}
	defer it.Close()
	var out []KV
	for {
		err := it.Next(context.Background())
		if err == io.EOF {
			break
		}
		if err != nil {
			panic(err)
		}
		out = append(out, KV{cp(it.Key()), cp(it.Val())})
	}
	sort.Slice(out, func(i, j int) bool { return bytes.Compare(out[i].Key, out[j].Key) < 0 })
	return out
}

// Rec is a decoded record of the MVCC layout.
type Rec struct {
	Raw     bool // not an MVCC record (compact key, election key, ...)
	Key     string
	Rev     uint64 // 0 = index record
	Val     []byte
	IdxRev  uint64 // index record: revision stored
	IdxTomb bool   // index record: deletion flag
	RawKey  []byte
}

// Decode interprets a dump.
func Decode(d []KV) []Rec {
	var out []Rec
	magic := []byte("\x57\xfb\x80\x8b")
	for _, kv := range d {
		if !bytes.HasPrefix(kv.Key, magic) || len(kv.Key) < len(magic)+9 {
			out = append(out, Rec{Raw: true, Key: string(kv.Key), Val: kv.Val, RawKey: kv.Key})
			continue
		}
		uk, rev, err := Coder.Decode(kv.Key)
		if err != nil {
			out = append(out, Rec{Raw: true, Key: string(kv.Key), Val: kv.Val, RawKey: kv.Key})
			continue
		}
		r := Rec{Key: string(uk), Rev: rev, Val: kv.Val, RawKey: kv.Key}
		if rev == 0 {
			ir, tomb, perr := coder.ParseRevision(kv.Val)
			if perr != nil {
				r.Raw = true
			}
			r.IdxRev, r.IdxTomb = ir, tomb
		}
		out = append(out, r)
	}
	return out
}

// DumpString renders a decoded dump compactly (revisions relative to base).
func DumpString(recs []Rec, base uint64) string {
	var b bytes.Buffer
	for _, r := range recs {
		switch {
		case r.Raw:
			fmt.Fprintf(&b, "[raw %q=%x] ", r.Key, r.Val)
		case r.Rev == 0:
			t := ""
			if r.IdxTomb {
				t = "†"
			}
			fmt.Fprintf(&b, "[%s#idx=%d%s] ", r.Key, int64(r.IdxRev)-int64(base), t)
		default:
			fmt.Fprintf(&b, "[%s@%d=%s] ", r.Key, int64(r.Rev)-int64(base), r.Val)
		}
	}
	return b.String()
}
