package hx

import (
	"context"
	"fmt"

	"google.golang.org/grpc/metadata"
	"k8s.io/client-go/tools/leaderelection/resourcelock"

	proto "github.com/kubewharf/kubebrain-client/api/v2rpc"

	"github.com/kubewharf/kubebrain/pkg/backend"
)

// RecBackend records which methods of a backend are called, in order.
type RecBackend struct {
	backend.Backend
	Calls []string
}

func (r *RecBackend) rec(s string) { r.Calls = append(r.Calls, s) }

func (r *RecBackend) Create(ctx context.Context, q *proto.CreateRequest) (*proto.CreateResponse, error) {
	r.rec("Create")
	return r.Backend.Create(ctx, q)
}
func (r *RecBackend) Update(ctx context.Context, q *proto.UpdateRequest) (*proto.UpdateResponse, error) {
	r.rec("Update")
	return r.Backend.Update(ctx, q)
}
func (r *RecBackend) Delete(ctx context.Context, q *proto.DeleteRequest) (*proto.DeleteResponse, error) {
	r.rec("Delete")
	return r.Backend.Delete(ctx, q)
}
func (r *RecBackend) Compact(ctx context.Context, rev uint64) (*proto.CompactResponse, error) {
	r.rec("Compact")
	return r.Backend.Compact(ctx, rev)
}
func (r *RecBackend) Get(ctx context.Context, q *proto.GetRequest) (*proto.GetResponse, error) {
	r.rec("Get")
	return r.Backend.Get(ctx, q)
}
func (r *RecBackend) List(ctx context.Context, q *proto.RangeRequest) (*proto.RangeResponse, error) {
	r.rec("List")
	return r.Backend.List(ctx, q)
}
func (r *RecBackend) Count(ctx context.Context, q *proto.CountRequest) (*proto.CountResponse, error) {
	r.rec("Count")
	return r.Backend.Count(ctx, q)
}
func (r *RecBackend) GetPartitions(ctx context.Context, q *proto.ListPartitionRequest) (*proto.ListPartitionResponse, error) {
	r.rec("GetPartitions")
	return r.Backend.GetPartitions(ctx, q)
}
func (r *RecBackend) ListByStream(ctx context.Context, s, e []byte, rev uint64) (<-chan *proto.StreamRangeResponse, error) {
	r.rec("ListByStream")
	return r.Backend.ListByStream(ctx, s, e, rev)
}
func (r *RecBackend) Watch(ctx context.Context, key string, rev uint64) (<-chan []*proto.Event, error) {
	r.rec("Watch")
	return r.Backend.Watch(ctx, key, rev)
}
func (r *RecBackend) SetCurrentRevision(rev uint64) {
	r.rec(fmt.Sprintf("SetCurrentRevision(%d)", rev))
	r.Backend.SetCurrentRevision(rev)
}
func (r *RecBackend) GetResourceLock() resourcelock.Interface { return r.Backend.GetResourceLock() }

// BrainRangeStream is an in-memory proto.Read_RangeStreamServer.
type BrainRangeStream struct {
	Ctx  context.Context
	Sent []*proto.StreamRangeResponse
}

func (s *BrainRangeStream) Send(r *proto.StreamRangeResponse) error {
	s.Sent = append(s.Sent, r)
	return nil
}
func (s *BrainRangeStream) SetHeader(metadata.MD) error  { return nil }
func (s *BrainRangeStream) SendHeader(metadata.MD) error { return nil }
func (s *BrainRangeStream) SetTrailer(metadata.MD)       {}
func (s *BrainRangeStream) Context() context.Context     { return s.Ctx }
func (s *BrainRangeStream) SendMsg(m interface{}) error  { return nil }
func (s *BrainRangeStream) RecvMsg(m interface{}) error  { return nil }

// BrainWatchStream is an in-memory proto.Watch_WatchServer.
type BrainWatchStream struct {
	Ctx  context.Context
	Sent []*proto.WatchResponse
}

func (s *BrainWatchStream) Send(r *proto.WatchResponse) error { s.Sent = append(s.Sent, r); return nil }
func (s *BrainWatchStream) SetHeader(metadata.MD) error       { return nil }
func (s *BrainWatchStream) SendHeader(metadata.MD) error      { return nil }
func (s *BrainWatchStream) SetTrailer(metadata.MD)            {}
func (s *BrainWatchStream) Context() context.Context          { return s.Ctx }
func (s *BrainWatchStream) SendMsg(m interface{}) error       { return nil }
func (s *BrainWatchStream) RecvMsg(m interface{}) error       { return nil }
