package hx

import (
	"context"
	"fmt"
	"io"

	"go.etcd.io/etcd/api/v3/etcdserverpb"
	"go.etcd.io/etcd/api/v3/mvccpb"
	"google.golang.org/grpc/metadata"

	"github.com/kubewharf/kubebrain/pkg/server/service/leader"
	"github.com/kubewharf/kubebrain/zz_verif/rt/vrt"
)

// Peers is a scriptable service.PeerService.
type Peers struct {
	Leader       bool
	Proxy        bool
	SyncErr      error
	SyncFn       func() error // when set, called instead of returning SyncErr
	Syncs        int
	ProxiedTxn   int
	ProxiedWatch int
	LeaderAddr   string
}

func (p *Peers) SyncReadRevision() error {
	p.Syncs++
	if p.SyncFn != nil {
		return p.SyncFn()
	}
	return p.SyncErr
}
func (p *Peers) Close() error          { return nil }
func (p *Peers) Campaign()             {}
func (p *Peers) GetLeaderInfo() string { return p.LeaderAddr }
func (p *Peers) IsLeader() bool        { return p.Leader }
func (p *Peers) GetElectionInfo() (leader.ElectionInfo, error) {
	return leader.ElectionInfo{LeaderAddress: p.LeaderAddr, IsLeader: p.Leader}, nil
}
func (p *Peers) EtcdProxyEnabled() bool { return p.Proxy }
func (p *Peers) Txn(ctx context.Context, txn *etcdserverpb.TxnRequest) (*etcdserverpb.TxnResponse, error) {
	p.ProxiedTxn++
	return &etcdserverpb.TxnResponse{Header: &etcdserverpb.ResponseHeader{}}, nil
}
func (p *Peers) Watch(ctx context.Context, key string, revision uint64) (<-chan []*mvccpb.Event, error) {
	p.ProxiedWatch++
	return nil, fmt.Errorf("proxied watch (stub)")
}

// WatchStream is an in-memory etcdserverpb.Watch_WatchServer.
type WatchStream struct {
	Ctx     context.Context
	Cancel  context.CancelFunc
	Reqs    chan *etcdserverpb.WatchRequest
	Sent    []*etcdserverpb.WatchResponse
	SendErr error
}

func NewWatchStream() *WatchStream {
	ctx, cancel := context.WithCancel(context.Background())
	return &WatchStream{Ctx: ctx, Cancel: cancel, Reqs: make(chan *etcdserverpb.WatchRequest, 16)}
}

func (s *WatchStream) Send(r *etcdserverpb.WatchResponse) error {
	// a send on a gRPC stream takes a lock and does I/O: it is a scheduling point (other goroutines of the
	// watch server can get their own responses in first)
	vrt.Yield("watch stream send")
	if s.SendErr != nil {
		return s.SendErr
	}
	s.Sent = append(s.Sent, r)
	return nil
}

func (s *WatchStream) Recv() (*etcdserverpb.WatchRequest, error) {
	vrt.Recv(s.Reqs)
	r, ok := <-s.Reqs
	vrt.Recvd()
	if !ok {
		return nil, io.EOF
	}
	return r, nil
}

// Push queues a client request.
func (s *WatchStream) Push(r *etcdserverpb.WatchRequest) {
	vrt.Send(s.Reqs)
	s.Reqs <- r
	vrt.Sent()
}

// CloseSend ends the client side.
func (s *WatchStream) CloseSend() {
	vrt.Close(s.Reqs)
	close(s.Reqs)
}

func (s *WatchStream) SetHeader(metadata.MD) error  { return nil }
func (s *WatchStream) SendHeader(metadata.MD) error { return nil }
func (s *WatchStream) SetTrailer(metadata.MD)       {}
func (s *WatchStream) Context() context.Context     { return s.Ctx }
func (s *WatchStream) SendMsg(m interface{}) error  { return nil }
func (s *WatchStream) RecvMsg(m interface{}) error  { return nil }
