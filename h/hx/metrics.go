package hx

import (
	"net/http"

	"google.golang.org/grpc"

	"github.com/kubewharf/kubebrain/pkg/metrics"
)

// NopMetrics discards everything.
type NopMetrics struct{}

func (NopMetrics) GetGrpcServerOption() []grpc.ServerOption              { return nil }
func (NopMetrics) GetHttpHandlers() map[string]http.Handler              { return nil }
func (NopMetrics) EmitCounter(string, interface{}, ...metrics.T) error   { return nil }
func (NopMetrics) EmitGauge(string, interface{}, ...metrics.T) error     { return nil }
func (NopMetrics) EmitHistogram(string, interface{}, ...metrics.T) error { return nil }
