package main

import (
	"os"

	"github.com/kubewharf/kubebrain/zz_verif/h/hx"
	"github.com/kubewharf/kubebrain/zz_verif/h/mc"
	_ "github.com/kubewharf/kubebrain/zz_verif/h/props"
	"github.com/kubewharf/kubebrain/zz_verif/rt/vrt"
)

func main() {
	vrt.ValidateLayout()
	hx.Quiet()
	if len(os.Args) > 1 && (os.Args[1] == "smoke" || os.Args[1] == "selftest") {
		hx.Smoke()
		return
	}
	mc.Main()
}
