package mc

import (
	"encoding/json"
	"fmt"
	"time"

	"github.com/kubewharf/kubebrain/zz_verif/rt/vrt"
)

// Breadth-first search over operation histories.  A state is identified by a canonical key computed
// by the harness (reference-model state + normalised implementation state); every transition is
// executed on a fresh real instance by replaying the shortest history that reaches the state plus
// one more operation.

// jobUntil is the absolute deadline of the running job; long oracle loops poll Expired().
var jobUntil time.Time

// Expired reports whether the tier budget of the running job is used up.
func Expired() bool { return !jobUntil.IsZero() && time.Now().After(jobUntil) }

// SeqHorizon is the step horizon of one history execution (0 = default).
var SeqHorizon int

// SeqOut is what one executed history reports.
type SeqOut struct {
	Key   string // canonical key of the state reached ("" = do not extend: terminal)
	Obs   string
	Viols []Violation
	Evals int  // oracle evaluations (read-backs) performed
	Cut   bool // the budget ran out inside this history's oracle loop
	// Known: deviations that are reported (and matched against known_findings.json) but do not
	// stop the search from extending this state.
	Known []Violation
}

type seqJob struct {
	Hist []int `json:"hist"`
	N    int   `json:"n"` // alphabet size
	Cfg  int   `json:"cfg"`
	Ops  []int `json:"ops,omitempty"` // extend by these operations only (nil = the whole alphabet)
}

// SeqOpsPerJob: how many one-step extensions of a state go into one worker job (0 = the whole
// alphabet).  Small values give more parallelism when one execution is expensive.
var SeqOpsPerJob = 0

// Succ is one successor reported by a worker.
type Succ struct {
	Op  int    `json:"op"`
	Key string `json:"key"`
}

type seqRes struct {
	Succ  []Succ `json:"succ"`
	Evals int    `json:"evals"`
}

// SeqExec is the worker side: it extends hist by every operation of the alphabet.
// run executes one history inside a scheduled execution (default schedule) and judges it.
func SeqExec(j *Job, run func(cfg int, hist []int) *SeqOut) *JobResult {
	var sj seqJob
	if err := json.Unmarshal(j.Extra, &sj); err != nil {
		return &JobResult{Err: "bad seq job: " + err.Error()}
	}
	res := &JobResult{Outcomes: map[string]int{}}
	jobUntil = time.Time{}
	if j.Until > 0 {
		jobUntil = time.UnixMilli(j.Until)
	}
	var sr seqRes
	ops := make([]int, 0, sj.N)
	if j.Bound == -1 { // replay of one exact history
		ops = append(ops, -1)
	} else if len(sj.Ops) > 0 {
		ops = append(ops, sj.Ops...)
	} else {
		for a := 0; a < sj.N; a++ {
			ops = append(ops, a)
		}
	}
	for _, a := range ops {
		if Expired() {
			res.Cut = true
			break
		}
		h := append(append([]int{}, sj.Hist...), a)
		if a < 0 {
			h = sj.Hist
		}
		var out *SeqOut
		r := vrt.Run(vrt.Config{Trace: j.Trace, Horizon: SeqHorizon}, func() { out = run(sj.Cfg, h) })
		res.Execs++
		res.Steps += r.Steps
		if out == nil {
			out = &SeqOut{}
		}
		if out.Cut {
			res.Cut = true
		}
		if r.Panic != "" {
			out.Viols = append(out.Viols, Violation{Sig: "panic", Detail: r.Panic})
		}
		if r.Deadlock {
			out.Viols = append(out.Viols, Violation{Sig: "deadlock", Detail: fmt.Sprint(r.Blocked)})
		}
		if r.Horizon {
			res.Horizons++
		}
		if j.Trace {
			res.Trace = r.Ops
		}
		sr.Evals += out.Evals
		res.Outcomes[out.Obs]++
		if len(res.Samples) < 2 {
			res.Samples = append(res.Samples, fmt.Sprintf("cfg=%d history=%v -> %s", sj.Cfg, h, out.Obs))
		}
		for _, v := range append(append([]Violation{}, out.Viols...), out.Known...) {
			dup := false
			for _, o := range res.Viols {
				dup = dup || o.Sig == v.Sig
			}
			if len(res.Viols) < 24 && !dup {
				jj := *j
				e, _ := json.Marshal(seqJob{Hist: h, N: sj.N, Cfg: sj.Cfg})
				jj.Extra, jj.Bound, jj.Until, jj.Budget = e, -1, 0, 0
				v.Job = &jj
				res.Viols = append(res.Viols, v)
			}
		}
		if out.Key != "" && len(out.Viols) == 0 {
			sr.Succ = append(sr.Succ, Succ{a, out.Key})
		}
	}
	res.States = len(sr.Succ)
	res.Extra, _ = json.Marshal(sr)
	return res
}

// SeqStats summarises one BFS.
type SeqStats struct {
	States      int  `json:"states"`
	Transitions int  `json:"transitions"`
	Depth       int  `json:"depth_completed"`
	Evals       int  `json:"oracle_evaluations"`
	Cut         bool `json:"cut,omitempty"`
}

// SeqFullDepth: histories up to this length are all extended, whether or not their canonical state
// was seen before.  The canonical key is computed from the reference model and what the harness can
// observe of the implementation; an implementation may carry state the key does not show (a cached
// value, a remembered request), and merging two histories that differ in it would hide a defect
// that needs that state.  Below this depth the search is a complete tree.
var SeqFullDepth = 2

// DriveSeq runs the BFS for configuration cfg to the given depth (master side).
func DriveSeq(c *Ctx, kind string, cfg, alphabet, depth int) SeqStats {
	st := SeqStats{}
	seen := map[string]bool{}
	frontier := [][]int{{}}
	st.States = 1
	for d := 1; d <= depth && len(frontier) > 0; d++ {
		var next [][]int
		cut := false
		for _, h := range frontier {
			if c.Remaining() <= 0 {
				cut = true
				break
			}
			h := h
			var chunks [][]int
			if SeqOpsPerJob > 0 && SeqOpsPerJob < alphabet {
				for a := 0; a < alphabet; a += SeqOpsPerJob {
					var ch []int
					for b := a; b < a+SeqOpsPerJob && b < alphabet; b++ {
						ch = append(ch, b)
					}
					chunks = append(chunks, ch)
				}
			} else {
				chunks = [][]int{nil}
			}
			for _, ch := range chunks {
				e, _ := json.Marshal(seqJob{Hist: h, N: alphabet, Cfg: cfg, Ops: ch})
				j := Job{Prop: c.Prop.ID, Kind: kind, Tier: c.Tier, Extra: e, Until: c.Deadline.UnixMilli()}
				c.Pool.Submit(j, func(j Job, r *JobResult) {
					before := len(c.Agg.Viols)
					c.Agg.Add(j, r)
					_ = before
					if r.Cut {
						cut = true // the level is incomplete: it must not be reported as completed
					}
					var sr seqRes
					if len(r.Extra) > 0 {
						json.Unmarshal(r.Extra, &sr)
					}
					st.Transitions += r.Execs
					st.Evals += sr.Evals
					for _, s := range sr.Succ {
						isNew := !seen[s.Key]
						if isNew {
							seen[s.Key] = true
							st.States++
						}
						if isNew || len(h)+1 <= SeqFullDepth {
							next = append(next, append(append([]int{}, h...), s.Op))
						}
					}
				})
			}
		}
		c.Pool.Wait()
		if cut {
			st.Cut = true
			c.Agg.Cut = true
			break
		}
		st.Depth = d
		frontier = next
	}
	// Agg.States counted successors per job; replace by the de-duplicated number
	return st
}
