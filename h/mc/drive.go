package mc

import (
	"crypto/sha256"
	"encoding/hex"
	"encoding/json"
	"fmt"
	"os"
	"path/filepath"
	"runtime/pprof"
	"sort"
	"strconv"
	"strings"
	"time"
)

// Property is one registered check.
type Property struct {
	ID        string
	Level     string // evidence level: model_checking | fault_enumeration | exploration
	Rule      string // how cases are enumerated / what is distinct
	Assume    []string
	Scenarios func(tier string) []*Scenario // schedule-exploration scenarios (may be nil)
	Drive     func(c *Ctx)                  // master side
	Exec      func(j *Job) *JobResult       // worker side for custom job kinds
}

var registry = map[string]*Property{}

// Register adds a property check.
func Register(p *Property) { registry[p.ID] = p }

// Ctx is the master-side context of one check run.
type Ctx struct {
	Prop     *Property
	Tier     string
	Seed     int64
	Pool     *Pool
	Agg      *Agg
	Start    time.Time
	Deadline time.Time
	Cov      map[string]interface{} // extra coverage keys
	Exhaust  bool
	Notes    []string
}

// Remaining is the time left in the tier budget, in seconds.
func (c *Ctx) Remaining() float64 { return time.Until(c.Deadline).Seconds() }

func verifRoot() string {
	if v := os.Getenv("VERIF_ROOT"); v != "" {
		return v
	}
	return "/verif"
}

// KnownFinding is one entry of known_findings.json.
type KnownFinding struct {
	Property  string `json:"property"`
	Signature string `json:"signature"`
	Status    string `json:"status"` // "known" | "fixed"
	Commit    string `json:"commit,omitempty"`
	What      string `json:"what"`
}

func loadKnown() []KnownFinding {
	var f struct {
		Findings []KnownFinding `json:"findings"`
	}
	b, err := os.ReadFile(filepath.Join(verifRoot(), "known_findings.json"))
	if err != nil {
		return nil
	}
	if err := json.Unmarshal(b, &f); err != nil {
		fmt.Fprintln(os.Stderr, "known_findings.json:", err)
		os.Exit(2)
	}
	return f.Findings
}

// Main is the entry point of the vcheck binary.
func Main() {
	args := os.Args[1:]
	if len(args) >= 1 && args[0] == "-worker" {
		WorkerLoop(execJob)
		return
	}
	if len(args) >= 2 && args[0] == "replay" {
		os.Exit(replay(args[1]))
	}
	if len(args) >= 2 && args[0] == "job" {
		// developer aid: run one job in-process: vcheck job '<json>' [cpuprofile]
		var j Job
		if err := json.Unmarshal([]byte(args[1]), &j); err != nil {
			fmt.Fprintln(os.Stderr, err)
			os.Exit(2)
		}
		if len(args) >= 3 {
			f, _ := os.Create(args[2])
			pprof.StartCPUProfile(f)
			defer pprof.StopCPUProfile()
		}
		t0 := time.Now()
		r := execJob(&j)
		r.Trace = nil
		fmt.Printf("execs=%d steps=%d states=%d outcomes=%d viols=%d err=%q cut=%v in %v (%.0f exec/s)\n", r.Execs, r.Steps, r.States, len(r.Outcomes), len(r.Viols), r.Err, r.Cut, time.Since(t0), float64(r.Execs)/time.Since(t0).Seconds())
		for _, v := range r.Viols {
			fmt.Println("  viol:", v.Sig, "|", firstLines(v.Detail, 6))
		}
		for _, o := range SortedOutcomes(r.Outcomes, 100) {
			fmt.Println("  outcome:", o[:strings.LastIndex(o, " ×")])
		}
		return
	}
	if len(args) < 2 {
		fmt.Fprintln(os.Stderr, "usage: vcheck <property> quick|thorough | vcheck replay <file>")
		os.Exit(2)
	}
	p := registry[args[0]]
	if p == nil {
		fmt.Fprintln(os.Stderr, "unknown property", args[0])
		os.Exit(2)
	}
	os.Exit(runCheck(p, args[1]))
}

func execJob(j *Job) *JobResult {
	p := registry[j.Prop]
	if p == nil {
		return &JobResult{Err: "unknown property " + j.Prop}
	}
	if j.Kind == "sched" {
		scns := p.Scenarios(j.Tier)
		if j.Scn < 0 || j.Scn >= len(scns) {
			return &JobResult{Err: fmt.Sprintf("scenario %d out of range", j.Scn)}
		}
		if j.ScnName != "" && scns[j.Scn].Name != j.ScnName {
			return &JobResult{Err: fmt.Sprintf("scenario %d is %q, the job was recorded for %q", j.Scn, scns[j.Scn].Name, j.ScnName)}
		}
		return ExploreJob(scns[j.Scn], j)
	}
	if p.Exec == nil {
		return &JobResult{Err: "no executor for job kind " + j.Kind}
	}
	return p.Exec(j)
}

func budget(tier string) time.Duration {
	if v := os.Getenv("VERIF_BUDGET_S"); v != "" {
		if f, err := strconv.ParseFloat(v, 64); err == nil {
			return time.Duration(f * float64(time.Second))
		}
	}
	if tier == "thorough" {
		return 20 * time.Minute
	}
	return 180 * time.Second
}

func runCheck(p *Property, tier string) int {
	seed, _ := strconv.ParseInt(os.Getenv("VERIF_SEED"), 10, 64)
	c := &Ctx{Prop: p, Tier: tier, Seed: seed, Pool: NewPool(0), Agg: NewAgg(), Start: time.Now(), Cov: map[string]interface{}{}, Exhaust: true}
	c.Deadline = c.Start.Add(budget(tier))
	p.Drive(c)
	c.Pool.Wait()
	c.Pool.Close()
	a := c.Agg
	wall := time.Since(c.Start).Seconds()

	for _, d := range c.Pool.Deaths {
		a.Viols = append(a.Viols, Violation{Sig: "process-death", Detail: "worker process died while running job " + d})
	}
	// classify violations
	known := loadKnown()
	code := 0
	seenSig := map[string]bool{}
	var lines []string
	newViol := 0
	sort.SliceStable(a.Viols, func(i, j int) bool { return a.Viols[i].Sig < a.Viols[j].Sig })
	for _, v := range a.Viols {
		if seenSig[v.Sig] {
			continue
		}
		seenSig[v.Sig] = true
		v.Property = p.ID
		isKnown := false
		for _, k := range known {
			if k.Property == p.ID && k.Status == "known" && k.Signature == v.Sig {
				lines = append(lines, fmt.Sprintf("KNOWN-FINDING: property=%s %s [%s]", p.ID, k.What, v.Sig))
				isKnown = true
			}
		}
		if isKnown {
			continue
		}
		newViol++
		path := writeReplay(p.ID, &v)
		lines = append(lines, fmt.Sprintf("VIOLATION property=%s replay=%s", p.ID, path))
		lines = append(lines, fmt.Sprintf("  signature: %s\n  detail: %s", v.Sig, firstLines(v.Detail, 12)))
		code = 1
	}
	if len(a.Errs) > 0 {
		for _, e := range a.Errs {
			fmt.Fprintln(os.Stderr, "ERROR:", e)
		}
		code = 2
	}
	exhaustive := c.Exhaust && !a.Cut && a.Horizons == 0 && a.Nondet == 0
	// evidence
	cov := map[string]interface{}{
		"states":                        a.States,
		"transitions":                   a.Steps,
		"traces_validated_against_impl": a.Execs,
		"evaluations":                   a.Execs,
		"distinct_nontrivial":           len(a.Outcomes),
		"rule":                          p.Rule,
		"samples":                       a.Samples,
		"exhaustive":                    exhaustive,
		"distinct_outcomes":             len(a.Outcomes),
		"outcome_histogram":             SortedOutcomes(a.Outcomes, 40),
		"determinism_rechecks":          a.Replays,
		"state_cache_hits":              a.CacheHits,
		"noop_excursions_pruned":        a.Pruned,
		"engine_nondeterminism_events":  a.Nondet,
		"horizon_hits":                  a.Horizons,
		"budget_cut":                    a.Cut,
		"max_decision_depth":            a.MaxDepth,
		"per_scenario_class":            a.PerScn,
		"notes":                         c.Notes,
	}
	for k, v := range c.Cov {
		cov[k] = v
	}
	if len(a.Samples) == 0 {
		cov["samples"] = []string{"(none)"}
	}
	ev := map[string]interface{}{
		"property_id": p.ID, "tier": tier, "seed": seed, "level": p.Level, "coverage": cov,
		"assumptions": p.Assume, "wall_s": wall, "violations": newViol,
	}
	if code != 2 {
		b, _ := json.MarshalIndent(ev, "", " ")
		os.MkdirAll(filepath.Join(verifRoot(), "evidence"), 0o755)
		if err := os.WriteFile(filepath.Join(verifRoot(), "evidence", p.ID+".json"), b, 0o644); err != nil {
			fmt.Fprintln(os.Stderr, "cannot write evidence:", err)
			code = 2
		}
	}
	fmt.Printf("%s %s: executions=%d states=%d transitions=%d outcomes=%d exhaustive=%v wall=%.1fs\n", p.ID, tier, a.Execs, a.States, a.Steps, len(a.Outcomes), exhaustive, wall)
	for _, l := range lines {
		fmt.Println(l)
	}
	return code
}

func firstLines(s string, n int) string {
	ls := strings.Split(s, "\n")
	if len(ls) > n {
		ls = append(ls[:n], "...")
	}
	return strings.Join(ls, "\n    ")
}

func writeReplay(prop string, v *Violation) string {
	b, _ := json.MarshalIndent(v, "", " ")
	h := sha256.Sum256([]byte(v.Sig))
	dir := filepath.Join(verifRoot(), "replays", prop)
	os.MkdirAll(dir, 0o755)
	path := filepath.Join(dir, hex.EncodeToString(h[:6])+".json")
	os.WriteFile(path, b, 0o644)
	return path
}

func replay(path string) int {
	b, err := os.ReadFile(path)
	if err != nil {
		fmt.Fprintln(os.Stderr, err)
		return 2
	}
	var v Violation
	if err := json.Unmarshal(b, &v); err != nil || v.Job == nil {
		fmt.Fprintln(os.Stderr, "not a replay file:", err)
		return 2
	}
	j := *v.Job
	j.Trace = true
	j.Expand = false
	j.Bound = -1 // run exactly this schedule, explore nothing
	r := execJob(&j)
	for _, o := range r.Trace {
		fmt.Printf("  %-8s %-7s %s\n", o.Thread, o.Kind, o.Label)
	}
	if r.Err != "" {
		fmt.Println("ERROR:", r.Err)
		return 2
	}
	for _, s := range r.Samples {
		fmt.Println("execution:", s)
	}
	if len(r.Viols) == 0 {
		fmt.Println("replay: no violation reproduced")
		return 0
	}
	for _, x := range r.Viols {
		fmt.Printf("VIOLATION property=%s replay=%s\n  signature: %s\n  detail: %s\n", v.Property, path, x.Sig, x.Detail)
	}
	return 1
}

// ---------------------------------------------------------------------------------------------

// SchedPlan says how deep a scenario is explored in a tier.
type SchedPlan struct {
	Bounds []int // bounds to complete in order (iterative context bounding)
	Class  string
	Shard  bool // split the last bound over the pool by expanding the root
}

// DriveSchedules explores every scenario of the property according to plan.
func DriveSchedules(c *Ctx, plan func(i int, sc *Scenario) SchedPlan) {
	scns := c.Prop.Scenarios(c.Tier)
	c.Cov["scenarios"] = len(scns)
	type st struct {
		plan    SchedPlan
		k       int
		pending int
		cut     bool
	}
	states := make([]*st, len(scns))
	var submit func(i int)
	stat := func(i int) *ScnStat {
		cl := states[i].plan.Class
		s := c.Agg.PerScn[cl]
		if s == nil {
			s = &ScnStat{Bound: 1 << 30, Outcomes: map[string]int{}}
			c.Agg.PerScn[cl] = s
		}
		return s
	}
	finishBound := func(i int) {
		s := states[i]
		if s.cut {
			ss := stat(i)
			ss.Cut = true
			done := -1
			if s.k > 0 {
				done = s.plan.Bounds[s.k-1]
			}
			if done < ss.Bound {
				ss.Bound = done
			}
			return
		}
		s.k++
		if s.k < len(s.plan.Bounds) {
			submit(i)
			return
		}
		ss := stat(i)
		if b := s.plan.Bounds[len(s.plan.Bounds)-1]; b < ss.Bound {
			ss.Bound = b
		}
	}
	var onDone func(j Job, r *JobResult)
	onDone = func(j Job, r *JobResult) {
		i := j.Scn
		s := states[i]
		c.Agg.Add(j, r)
		ss := stat(i)
		ss.Execs += r.Execs
		ss.States += r.States
		for k, v := range r.Outcomes {
			ss.Outcomes[k] += v
		}
		if r.Cut {
			s.cut = true
		}
		for _, ch := range r.Children {
			s.pending++
			ch.Budget = c.Remaining()
			ch.Until = c.Deadline.UnixMilli()
			if ch.Budget <= 0 {
				s.cut = true
				s.pending--
				continue
			}
			c.Pool.Submit(ch, onDone)
		}
		s.pending--
		if s.pending == 0 {
			finishBound(i)
		}
	}
	submit = func(i int) {
		s := states[i]
		rem := c.Remaining()
		if rem <= 0 {
			s.cut = true
			finishBound(i)
			return
		}
		j := Job{Prop: c.Prop.ID, Kind: "sched", Tier: c.Tier, Scn: i, ScnName: scns[i].Name, Bound: s.plan.Bounds[s.k], Budget: rem, Until: c.Deadline.UnixMilli()}
		j.Expand = s.plan.Shard && s.k == len(s.plan.Bounds)-1 && j.Bound > 0
		s.pending = 1
		c.Pool.Submit(j, onDone)
	}
	c.Pool.mu.Lock()
	order := make([]int, len(scns))
	for i := range order {
		order[i] = i
	}
	// the seed only permutes the order in which scenarios are handed out
	if c.Seed != 0 {
		x := uint64(c.Seed)
		for i := len(order) - 1; i > 0; i-- {
			x = x*6364136223846793005 + 1442695040888963407
			k := int((x >> 33) % uint64(i+1))
			order[i], order[k] = order[k], order[i]
		}
	}
	for _, i := range order {
		states[i] = &st{plan: plan(i, scns[i])}
		if len(states[i].plan.Bounds) == 0 {
			continue
		}
		submit(i)
	}
	c.Pool.mu.Unlock()
	c.Pool.Wait()
}
