// Package mc is the explorer: preemption-bounded depth-first enumeration of schedules of a scenario
// executed on the real code (stateless, by re-execution), a breadth-first search over operation
// histories, a pool of worker processes, and the evidence / verdict plumbing shared by all properties.
package mc

import (
	"bufio"
	"encoding/json"
	"fmt"
	"os"
	"os/exec"
	"path/filepath"
	"runtime"
	"runtime/debug"
	"sort"
	"strconv"
	"sync"
	"syscall"
	"time"

	"github.com/kubewharf/kubebrain/zz_verif/rt/vrt"
)

// Violation is one failed oracle clause on one execution.
type Violation struct {
	Property string          `json:"property"`
	Sig      string          `json:"signature"` // stable identity of the defect (used by known_findings.json)
	Detail   string          `json:"detail"`
	Job      *Job            `json:"job,omitempty"` // how to reproduce
	Choices  []int           `json:"choices,omitempty"`
	Extra    json.RawMessage `json:"extra,omitempty"`
}

// X is handed to a scenario body (which runs as the main thread of one execution).
type X struct {
	Obs   string // observable outcome of this execution (for the distinct-outcome statistic)
	Viols []Violation
}

// Fail records a violation.
func (x *X) Fail(sig, format string, a ...interface{}) {
	x.Viols = append(x.Viols, Violation{Sig: sig, Detail: fmt.Sprintf(format, a...)})
}

// Scenario is a small closed concurrent program.
type Scenario struct {
	Name string
	Body func(x *X)
	// AllowDeadlock / AllowPanic: the harness judges these itself through Post.
	Post func(x *X, r *vrt.Result) // optional: runs after the execution, outside the scheduler
	// NoCache disables the state cache (needed when an oracle observes the order of events that do not
	// conflict in the happens-before sense, e.g. a monitor evaluated after every step).
	NoCache bool
	// OncePerProcess: the oracle reports a given violation once per process (race detector), so a
	// re-execution of the same schedule is compared on its trace and outcome only.
	OncePerProcess bool
	// TolerateNondet: the scenario runs on an engine that is not instrumented (badger, tikv mock) and
	// may not reproduce an execution exactly (asynchronous clean-up of failed transactions, lock
	// time-to-live in real time).  A divergence is then counted and the sub-tree abandoned
	// (exhaustive:false), never reported as a verdict: a violation is reported only if it reproduces.
	TolerateNondet bool
}

// Job is a unit of work for a worker process.
type Job struct {
	Prop    string          `json:"prop"`
	Kind    string          `json:"kind"` // "sched" | custom
	Tier    string          `json:"tier"`
	Scn     int             `json:"scn"`
	ScnName string          `json:"scn_name,omitempty"`
	Bound   int             `json:"bound"`
	Prefix  []int           `json:"prefix,omitempty"`
	PrefixN []int           `json:"prefix_n,omitempty"`
	Used    int             `json:"used,omitempty"`
	Expand  bool            `json:"expand,omitempty"`        // run the root only and return the children
	Budget  float64         `json:"budget_s,omitempty"`      // informational
	Until   int64           `json:"until_unix_ms,omitempty"` // absolute deadline of the tier budget
	Extra   json.RawMessage `json:"extra,omitempty"`
	Trace   bool            `json:"trace,omitempty"`
}

// JobResult is what a worker reports.
type JobResult struct {
	Execs     int             `json:"execs"`
	Steps     int             `json:"steps"`
	States    int             `json:"states"`
	Outcomes  map[string]int  `json:"outcomes,omitempty"`
	Viols     []Violation     `json:"viols,omitempty"`
	Children  []Job           `json:"children,omitempty"`
	Horizons  int             `json:"horizons,omitempty"`
	Cut       bool            `json:"cut,omitempty"` // budget exhausted before the subtree was finished
	Err       string          `json:"err,omitempty"` // hard error (nondeterminism, harness bug): exit 2
	Samples   []string        `json:"samples,omitempty"`
	Extra     json.RawMessage `json:"extra,omitempty"`
	Replays   int             `json:"replays,omitempty"` // determinism self-checks performed
	Pruned    int             `json:"pruned,omitempty"`  // subtrees not expanded (no-op excursions of spinning threads)
	CacheHits int             `json:"cache_hits,omitempty"`
	Nondet    int             `json:"nondet,omitempty"` // executions that did not reproduce on an un-instrumented engine
	MaxDepth  int             `json:"max_depth,omitempty"`
	Trace     []vrt.OpRec     `json:"trace,omitempty"`
}

// ---------------------------------------------------------------------------------------------
// schedule exploration (worker side)

type explorer struct {
	sc       *Scenario
	job      *Job
	bound    int
	res      *JobResult
	seen     map[uint64]struct{}
	deadline time.Time
	sigSeen  map[string]int
	recheck  int
	cache    map[uint64]int8
}

// ExploreJob runs one "sched" job on a scenario.
func ExploreJob(sc *Scenario, job *Job) *JobResult {
	e := &explorer{sc: sc, job: job, bound: job.Bound, res: &JobResult{Outcomes: map[string]int{}},
		seen: map[uint64]struct{}{}, sigSeen: map[string]int{}, cache: map[uint64]int8{}}
	if job.Until > 0 {
		e.deadline = time.UnixMilli(job.Until)
	}
	e.rec(job.Prefix, job.PrefixN, job.Used, job.Expand)
	e.res.States = len(e.seen)
	return e.res
}

func (e *explorer) run(prefix, prefixN []int, trace bool) (*X, *vrt.Result) {
	x := &X{}
	r := vrt.Run(vrt.Config{Prefix: prefix, PrefixN: prefixN, Trace: trace}, func() { e.sc.Body(x) })
	if e.sc.Post != nil {
		e.sc.Post(x, r)
	} else {
		if r.Panic != "" {
			x.Fail("panic", "%s", r.Panic)
		}
		if r.Deadlock {
			x.Fail("deadlock", "blocked: %v", r.Blocked)
		}
	}
	return x, r
}

func (e *explorer) rec(prefix, prefixN []int, used int, expandOnly bool) {
	if e.res.Err != "" || e.res.Cut {
		return
	}
	if !e.deadline.IsZero() && time.Now().After(e.deadline) {
		e.res.Cut = true
		return
	}
	x, r := e.run(prefix, prefixN, e.job.Trace)
	e.res.Execs++
	e.res.Steps += r.Steps
	if len(r.Choices) > e.res.MaxDepth {
		e.res.MaxDepth = len(r.Choices)
	}
	if r.Diverged != "" {
		if e.sc.TolerateNondet {
			e.res.Nondet++
			return
		}
		e.res.Err = "nondeterminism not captured (replay diverged): " + r.Diverged + " scenario=" + e.sc.Name
		return
	}
	if e.sc.NoCache {
		for _, h := range r.NodeHash[minInt(len(prefix), len(r.NodeHash)):] {
			e.seen[h] = struct{}{}
		}
		e.seen[r.TraceHash] = struct{}{}
	} else {
		for _, h := range r.FP[minInt(len(prefix), len(r.FP)):] {
			e.seen[h] = struct{}{}
		}
	}
	if r.Horizon {
		e.res.Horizons++
	}
	e.res.Outcomes[x.Obs]++
	if e.job.Trace {
		e.res.Trace = r.Ops
	}
	if len(e.res.Samples) < 3 {
		e.res.Samples = append(e.res.Samples, fmt.Sprintf("%s choices=%v -> %s", e.sc.Name, compact(r.Choices), x.Obs))
	}
	// periodic determinism self-check, and always for violations
	e.recheck++
	if len(x.Viols) > 0 || e.recheck%257 == 1 {
		n := 1
		if len(x.Viols) > 0 {
			n = 5
		}
		for i := 0; i < n; i++ {
			x2, r2 := e.run(r.Choices, r.NCands, false)
			e.res.Replays++
			if r2.TraceHash != r.TraceHash || x2.Obs != x.Obs || (len(x2.Viols) != len(x.Viols) && !e.sc.OncePerProcess) || r2.Diverged != "" {
				if e.sc.TolerateNondet {
					e.res.Nondet++
					return
				}
				e.res.Err = fmt.Sprintf("nondeterminism not captured: scenario=%s choices=%v obs %q vs %q, viols %d vs %d, hash %x vs %x %s",
					e.sc.Name, compact(r.Choices), x.Obs, x2.Obs, len(x.Viols), len(x2.Viols), r.TraceHash, r2.TraceHash, r2.Diverged)
				return
			}
		}
	}
	for _, v := range x.Viols {
		e.sigSeen[v.Sig]++
		if e.sigSeen[v.Sig] <= 1 && len(e.res.Viols) < 16 {
			v.Choices = append([]int{}, r.Choices...)
			j := *e.job
			j.Prefix, j.PrefixN, j.Expand, j.Bound, j.Budget, j.Until = v.Choices, append([]int{}, r.NCands...), false, 0, 0, 0
			j.ScnName = e.sc.Name
			v.Job = &j
			e.res.Viols = append(e.res.Viols, v)
		}
	}
	// the choice that ends this prefix started a read-only excursion of a spinning thread that found
	// nothing: the state is the one before the choice, whose other alternatives cover everything below
	limit := len(r.Choices)
	if len(prefix) > 0 {
		if noop, park := r.NoopExcursion(len(prefix) - 1); noop && park < limit {
			e.res.Pruned++
			limit = park
		}
	}
	for i := len(prefix); i < limit; i++ {
		if !e.sc.NoCache && !noCacheEnv && i < len(r.FP) {
			// state cache on happens-before fingerprints: a state already expanded with no more
			// preemptions used has nothing new below it
			if u, ok := e.cache[r.FP[i]]; ok && int(u) <= used {
				e.res.CacheHits++
				continue
			}
			e.cache[r.FP[i]] = int8(used)
		}
		cost := used
		if r.CurFirst[i] {
			cost++
		}
		if cost > e.bound {
			continue
		}
		for alt := 1; alt < r.NCands[i]; alt++ {
			np := make([]int, i+1)
			copy(np, r.Choices[:i])
			np[i] = alt
			nn := append([]int{}, r.NCands[:i+1]...)
			if expandOnly {
				c := *e.job
				c.Prefix, c.PrefixN, c.Used, c.Expand = np, nn, cost, false
				e.res.Children = append(e.res.Children, c)
				continue
			}
			e.rec(np, nn, cost, false)
			if e.res.Err != "" || e.res.Cut {
				return
			}
		}
	}
}

var noCacheEnv = os.Getenv("VERIF_NOCACHE") != ""

func minInt(a, b int) int {
	if a < b {
		return a
	}
	return b
}

// compact renders a choice list as the positions of the non-default choices.
func compact(c []int) string {
	s := "["
	for i, v := range c {
		if v != 0 {
			s += strconv.Itoa(i) + ":" + strconv.Itoa(v) + " "
		}
	}
	return s + fmt.Sprintf("/%d]", len(c))
}

// ---------------------------------------------------------------------------------------------
// worker pool (master side)

// Pool runs jobs on worker processes (this binary started with "-worker").
type Pool struct {
	n       int
	jobs    chan *poolItem
	wg      sync.WaitGroup
	mu      sync.Mutex
	Deaths  []string // jobs during which a worker process died
	closed  bool
	started bool
}

type poolItem struct {
	job  Job
	done func(Job, *JobResult)
}

// NewPool creates a pool of n workers (0 = number of CPUs).
func NewPool(n int) *Pool {
	if n <= 0 {
		n = runtime.NumCPU()
		if v, _ := strconv.Atoi(os.Getenv("VERIF_WORKERS")); v > 0 {
			n = v
		}
	}
	p := &Pool{n: n, jobs: make(chan *poolItem, 1<<16)}
	return p
}

func (p *Pool) start() {
	if p.started {
		return
	}
	p.started = true
	for i := 0; i < p.n; i++ {
		go p.worker(i)
	}
}

// Submit queues a job; done is called (serialised) with its result.
func (p *Pool) Submit(j Job, done func(Job, *JobResult)) {
	p.start()
	p.wg.Add(1)
	p.jobs <- &poolItem{j, done}
}

// Wait blocks until every submitted job (including jobs submitted by callbacks) has finished.
func (p *Pool) Wait() { p.wg.Wait() }

// Close stops the workers.
func (p *Pool) Close() {
	if !p.closed {
		p.closed = true
		close(p.jobs)
	}
}

type workerProc struct {
	pr  *os.File
	cmd *exec.Cmd
	in  *bufio.Writer
	out *bufio.Reader
	n   int
}

func startWorker() (*workerProc, error) {
	cmd := exec.Command(os.Args[0], "-worker")
	// results come back on fd 3; stdout/stderr of the worker carry engine chatter (badger, tikv
	// client) and, on fd 2 via SetCrashOutput, the crash report should the process die
	cmd.Stderr = os.Stderr
	cmd.Stdout = nil
	cmd.Env = append(os.Environ(), "GOMAXPROCS=2")
	if vrt.RaceBuild {
		os.MkdirAll(filepath.Join(verifRoot(), ".build", "race"), 0o755)
		cmd.Env = append(os.Environ(), "GOMAXPROCS=1", "GORACE=halt_on_error=0 log_path="+filepath.Join(verifRoot(), ".build", "race", "log"))
	}
	stdin, err := cmd.StdinPipe()
	if err != nil {
		return nil, err
	}
	pr, pw, err := os.Pipe()
	if err != nil {
		return nil, err
	}
	cmd.ExtraFiles = []*os.File{pw}
	if err := cmd.Start(); err != nil {
		return nil, err
	}
	pw.Close()
	return &workerProc{cmd: cmd, in: bufio.NewWriter(stdin), out: bufio.NewReaderSize(pr, 1<<20), pr: pr}, nil
}

func (w *workerProc) stop() {
	if w != nil && w.cmd != nil && w.cmd.Process != nil {
		w.cmd.Process.Kill()
		w.cmd.Wait()
		if w.pr != nil {
			w.pr.Close()
		}
	}
}

func (p *Pool) worker(i int) {
	var w *workerProc
	defer func() { w.stop() }()
	for it := range p.jobs {
		var res *JobResult
		for attempt := 0; attempt < 1; attempt++ {
			if w == nil || w.n >= 400 {
				w.stop()
				var err error
				w, err = startWorker()
				if err != nil {
					res = &JobResult{Err: "cannot start worker: " + err.Error()}
					break
				}
			}
			b, _ := json.Marshal(it.job)
			w.in.Write(b)
			w.in.WriteByte('\n')
			w.in.Flush()
			w.n++
			line, err := w.out.ReadBytes('\n')
			if err != nil {
				// the worker died while running this job
				w.stop()
				w = nil
				res = &JobResult{Extra: json.RawMessage(`{"worker_died":true}`)}
				p.mu.Lock()
				p.Deaths = append(p.Deaths, string(b))
				p.mu.Unlock()
				break
			}
			res = &JobResult{}
			if err := json.Unmarshal(line, res); err != nil {
				res = &JobResult{Err: "bad worker output: " + err.Error() + ": " + string(line)}
			}
		}
		p.mu.Lock()
		it.done(it.job, res)
		p.mu.Unlock()
		p.wg.Done()
	}
}

var workerErr = os.Stderr

// WorkerLoop is the main loop of a worker process: one JSON job per line in, one JSON result per line out.
func WorkerLoop(exec func(*Job) *JobResult) {
	// the sandbox has no memory limit: a request-sized allocation in the code under test must kill this
	// worker (which the master reports as a process death), not the machine.  The race build reserves
	// a huge shadow address space and cannot run under an address-space limit.
	if !vrt.RaceBuild {
		lim := uint64(12 << 30)
		syscall.Setrlimit(syscall.RLIMIT_AS, &syscall.Rlimit{Cur: lim, Max: lim})
	}
	in := bufio.NewReaderSize(os.Stdin, 1<<20)
	out := bufio.NewWriter(os.NewFile(3, "results"))
	// Engines log to stdout/stderr (badger: captured os.Stderr at init; tikv client: stdout).  Keep a
	// duplicate of the original stderr for crash reports and our own messages, silence the rest.
	if saved, err := syscall.Dup(2); err == nil {
		f := os.NewFile(uintptr(saved), "stderr-saved")
		debug.SetCrashOutput(f, debug.CrashOptions{})
		if dn, err := os.OpenFile(os.DevNull, os.O_WRONLY, 0); err == nil && os.Getenv("VERIF_WORKER_LOG") == "" {
			syscall.Dup2(int(dn.Fd()), 1)
			syscall.Dup2(int(dn.Fd()), 2)
		}
		workerErr = f
	}
	for {
		line, err := in.ReadBytes('\n')
		if err != nil {
			return
		}
		var j Job
		if err := json.Unmarshal(line, &j); err != nil {
			fmt.Fprintln(workerErr, "worker: bad job:", err)
			os.Exit(2)
		}
		res := exec(&j)
		b, _ := json.Marshal(res)
		out.Write(b)
		out.WriteByte('\n')
		out.Flush()
	}
}

// ---------------------------------------------------------------------------------------------
// aggregation (master side)

// Agg accumulates job results of one check.
type Agg struct {
	Execs, Steps, States, Horizons, Replays, MaxDepth int
	CacheHits, Pruned, Nondet                         int
	Outcomes                                          map[string]int
	Viols                                             []Violation
	Errs                                              []string
	Cut                                               bool
	Samples                                           []string
	PerScn                                            map[string]*ScnStat
}

// ScnStat is the per-scenario summary that goes into the evidence.
type ScnStat struct {
	Execs    int            `json:"executions"`
	States   int            `json:"states"`
	Bound    int            `json:"bound_completed"`
	Cut      bool           `json:"cut,omitempty"`
	Outcomes map[string]int `json:"outcomes,omitempty"`
}

func NewAgg() *Agg { return &Agg{Outcomes: map[string]int{}, PerScn: map[string]*ScnStat{}} }

// Add merges one job result.
func (a *Agg) Add(j Job, r *JobResult) {
	a.Execs += r.Execs
	a.Steps += r.Steps
	a.States += r.States
	a.Horizons += r.Horizons
	a.Replays += r.Replays
	a.CacheHits += r.CacheHits
	a.Pruned += r.Pruned
	a.Nondet += r.Nondet
	if r.MaxDepth > a.MaxDepth {
		a.MaxDepth = r.MaxDepth
	}
	for k, v := range r.Outcomes {
		a.Outcomes[k] += v
	}
	for i := range r.Viols {
		if r.Viols[i].Job == nil {
			// every violation is replayable: by default re-run the job that reported it
			jj := j
			jj.Until, jj.Budget = 0, 0
			r.Viols[i].Job = &jj
		}
	}
	a.Viols = append(a.Viols, r.Viols...)
	if r.Err != "" {
		a.Errs = append(a.Errs, r.Err)
	}
	if r.Cut {
		a.Cut = true
	}
	if len(a.Samples) < 6 {
		for _, s := range r.Samples {
			if len(a.Samples) < 6 {
				a.Samples = append(a.Samples, s)
			}
		}
	}
}

// SortedOutcomes renders the outcome histogram deterministically.
func SortedOutcomes(m map[string]int, max int) []string {
	var ks []string
	for k := range m {
		ks = append(ks, k)
	}
	sort.Strings(ks)
	var out []string
	for i, k := range ks {
		if i >= max {
			out = append(out, fmt.Sprintf("... %d more", len(ks)-max))
			break
		}
		out = append(out, fmt.Sprintf("%s ×%d", k, m[k]))
	}
	return out
}
