// Package vsync replaces "sync" in the instrumented kubebrain packages.
package vsync

import (
	"runtime"
	"sync"
	"unsafe"

	"github.com/kubewharf/kubebrain/zz_verif/rt/vrt"
)

// Locker is sync.Locker.
type Locker = sync.Locker

// Once, Map, Pool and Cond are not used by the instrumented packages; they are the real ones.
// (Once is safe: its slow path takes a real mutex only while running f; under the scheduler one
// thread runs at a time, so a second caller can only arrive after f has started if f reaches a
// scheduling point — which the instrumenter reports as unsupported usage when it sees sync.Once.)
type Map = sync.Map
type Pool = sync.Pool

// Mutex is a scheduled sync.Mutex.
type Mutex struct {
	st vrt.MutexState
	mu sync.Mutex
}

//go:norace
func (m *Mutex) Lock() {
	switch vrt.Block(vrt.OpLock, unsafe.Pointer(&m.st), "Mutex.Lock") {
	case vrt.Pass:
		m.mu.Lock()
	case vrt.Active:
		m.mu.Lock()
		m.st.Held = true
	case vrt.Teardown:
		if !m.mu.TryLock() {
			runtime.Goexit()
		}
		m.st.Held = true
	}
}

//go:norace
func (m *Mutex) TryLock() bool {
	switch vrt.Block(vrt.OpRun, unsafe.Pointer(&m.st), "Mutex.TryLock") {
	case vrt.Pass:
		return m.mu.TryLock()
	default:
		if m.mu.TryLock() {
			m.st.Held = true
			return true
		}
		return false
	}
}

//go:norace
func (m *Mutex) Unlock() {
	switch vrt.Write(unsafe.Pointer(&m.st), "Mutex.Unlock") {
	case vrt.Pass:
		m.mu.Unlock()
	case vrt.Active:
		m.st.Held = false
		m.mu.Unlock()
	case vrt.Teardown:
		if m.st.Held {
			m.st.Held = false
			m.mu.Unlock()
		}
	}
}

// RWMutex is a scheduled sync.RWMutex (writer preference is not modelled).
type RWMutex struct {
	st vrt.RWState
	mu sync.RWMutex
}

//go:norace
func (m *RWMutex) Lock() {
	switch vrt.Block(vrt.OpRWLock, unsafe.Pointer(&m.st), "RWMutex.Lock") {
	case vrt.Pass:
		m.mu.Lock()
	case vrt.Active:
		m.mu.Lock()
		m.st.W = true
	case vrt.Teardown:
		if !m.mu.TryLock() {
			runtime.Goexit()
		}
		m.st.W = true
	}
}

//go:norace
func (m *RWMutex) Unlock() {
	switch vrt.Write(unsafe.Pointer(&m.st), "RWMutex.Unlock") {
	case vrt.Pass:
		m.mu.Unlock()
	case vrt.Active:
		m.st.W = false
		m.mu.Unlock()
	case vrt.Teardown:
		if m.st.W {
			m.st.W = false
			m.mu.Unlock()
		}
	}
}

//go:norace
func (m *RWMutex) RLock() {
	switch vrt.Block(vrt.OpRLock, unsafe.Pointer(&m.st), "RWMutex.RLock") {
	case vrt.Pass:
		m.mu.RLock()
	case vrt.Active:
		m.mu.RLock()
		m.st.R++
	case vrt.Teardown:
		if !m.mu.TryRLock() {
			runtime.Goexit()
		}
		m.st.R++
	}
}

//go:norace
func (m *RWMutex) RUnlock() {
	switch vrt.Write(unsafe.Pointer(&m.st), "RWMutex.RUnlock") {
	case vrt.Pass:
		m.mu.RUnlock()
	case vrt.Active:
		m.st.R--
		m.mu.RUnlock()
	case vrt.Teardown:
		if m.st.R > 0 {
			m.st.R--
			m.mu.RUnlock()
		}
	}
}

// RLocker mirrors sync.RWMutex.RLocker.
//
//go:norace
func (m *RWMutex) RLocker() Locker { return (*rlocker)(m) }

type rlocker RWMutex

//go:norace
func (r *rlocker) Lock() { (*RWMutex)(r).RLock() }

//go:norace
func (r *rlocker) Unlock() { (*RWMutex)(r).RUnlock() }

// WaitGroup is a scheduled sync.WaitGroup.
type WaitGroup struct {
	st vrt.WGState
	wg sync.WaitGroup
}

//go:norace
func (w *WaitGroup) Add(n int) {
	switch vrt.Write(unsafe.Pointer(&w.st), "WaitGroup.Add") {
	case vrt.Pass:
		w.wg.Add(n)
	case vrt.Active:
		w.st.N += n
		w.wg.Add(n)
	case vrt.Teardown:
		if w.st.N+n >= 0 {
			w.st.N += n
			w.wg.Add(n)
		}
	}
}

//go:norace
func (w *WaitGroup) Done() { w.Add(-1) }

//go:norace
func (w *WaitGroup) Wait() {
	switch vrt.Block(vrt.OpWGWait, unsafe.Pointer(&w.st), "WaitGroup.Wait") {
	case vrt.Pass, vrt.Active:
		w.wg.Wait()
	case vrt.Teardown:
		// never block while the execution is torn down
	}
}
