// Package vatomic replaces "sync/atomic" in the instrumented kubebrain packages: every operation is
// a scheduling point, then the real atomic operation is performed.
package vatomic

import (
	"sync/atomic"
	"unsafe"

	"github.com/kubewharf/kubebrain/zz_verif/rt/vrt"
)

// AddHook / StoreHook let the harness observe values without adding scheduling points: they run in the
// thread that performs the operation, right after it.
var AddHook func(addr unsafe.Pointer, newVal uint64)
var StoreHook func(v interface{})
var StoreU64Hook func(addr unsafe.Pointer, v uint64)

//go:norace
func rd(p unsafe.Pointer, l string) { vrt.Atomic(p, false, l) }

//go:norace
func wr(p unsafe.Pointer, l string) { vrt.Atomic(p, true, l) }

//go:norace
func LoadInt32(a *int32) int32 { rd(unsafe.Pointer(a), "LoadInt32"); return atomic.LoadInt32(a) }

//go:norace
func LoadInt64(a *int64) int64 { rd(unsafe.Pointer(a), "LoadInt64"); return atomic.LoadInt64(a) }

//go:norace
func LoadUint32(a *uint32) uint32 { rd(unsafe.Pointer(a), "LoadUint32"); return atomic.LoadUint32(a) }

//go:norace
func LoadUint64(a *uint64) uint64 { rd(unsafe.Pointer(a), "LoadUint64"); return atomic.LoadUint64(a) }

//go:norace
func LoadUintptr(a *uintptr) uintptr {
	rd(unsafe.Pointer(a), "LoadUintptr")
	return atomic.LoadUintptr(a)
}

//go:norace
func LoadPointer(a *unsafe.Pointer) unsafe.Pointer {
	rd(unsafe.Pointer(a), "LoadPointer")
	return atomic.LoadPointer(a)
}

//go:norace
func StoreInt32(a *int32, v int32) { wr(unsafe.Pointer(a), "StoreInt32"); atomic.StoreInt32(a, v) }

//go:norace
func StoreInt64(a *int64, v int64) { wr(unsafe.Pointer(a), "StoreInt64"); atomic.StoreInt64(a, v) }

//go:norace
func StoreUint32(a *uint32, v uint32) { wr(unsafe.Pointer(a), "StoreUint32"); atomic.StoreUint32(a, v) }

//go:norace
func StoreUint64(a *uint64, v uint64) {
	wr(unsafe.Pointer(a), "StoreUint64")
	atomic.StoreUint64(a, v)
	if h := StoreU64Hook; h != nil {
		h(unsafe.Pointer(a), v)
	}
}

//go:norace
func StoreUintptr(a *uintptr, v uintptr) {
	wr(unsafe.Pointer(a), "StoreUintptr")
	atomic.StoreUintptr(a, v)
}

//go:norace
func StorePointer(a *unsafe.Pointer, v unsafe.Pointer) {
	wr(unsafe.Pointer(a), "StorePointer")
	atomic.StorePointer(a, v)
}

//go:norace
func AddInt32(a *int32, d int32) int32 {
	wr(unsafe.Pointer(a), "AddInt32")
	return atomic.AddInt32(a, d)
}

//go:norace
func AddInt64(a *int64, d int64) int64 {
	wr(unsafe.Pointer(a), "AddInt64")
	return atomic.AddInt64(a, d)
}

//go:norace
func AddUint32(a *uint32, d uint32) uint32 {
	wr(unsafe.Pointer(a), "AddUint32")
	return atomic.AddUint32(a, d)
}

//go:norace
func AddUint64(a *uint64, d uint64) uint64 {
	wr(unsafe.Pointer(a), "AddUint64")
	v := atomic.AddUint64(a, d)
	if h := AddHook; h != nil {
		h(unsafe.Pointer(a), v)
	}
	return v
}

//go:norace
func AddUintptr(a *uintptr, d uintptr) uintptr {
	wr(unsafe.Pointer(a), "AddUintptr")
	return atomic.AddUintptr(a, d)
}

//go:norace
func SwapInt32(a *int32, v int32) int32 {
	wr(unsafe.Pointer(a), "SwapInt32")
	return atomic.SwapInt32(a, v)
}

//go:norace
func SwapInt64(a *int64, v int64) int64 {
	wr(unsafe.Pointer(a), "SwapInt64")
	return atomic.SwapInt64(a, v)
}

//go:norace
func SwapUint32(a *uint32, v uint32) uint32 {
	wr(unsafe.Pointer(a), "SwapUint32")
	return atomic.SwapUint32(a, v)
}

//go:norace
func SwapUint64(a *uint64, v uint64) uint64 {
	wr(unsafe.Pointer(a), "SwapUint64")
	return atomic.SwapUint64(a, v)
}

//go:norace
func SwapUintptr(a *uintptr, v uintptr) uintptr {
	wr(unsafe.Pointer(a), "SwapUintptr")
	return atomic.SwapUintptr(a, v)
}

//go:norace
func SwapPointer(a *unsafe.Pointer, v unsafe.Pointer) unsafe.Pointer {
	wr(unsafe.Pointer(a), "SwapPointer")
	return atomic.SwapPointer(a, v)
}

//go:norace
func CompareAndSwapInt32(a *int32, o, n int32) bool {
	wr(unsafe.Pointer(a), "CompareAndSwapInt32")
	return atomic.CompareAndSwapInt32(a, o, n)
}

//go:norace
func CompareAndSwapInt64(a *int64, o, n int64) bool {
	wr(unsafe.Pointer(a), "CompareAndSwapInt64")
	return atomic.CompareAndSwapInt64(a, o, n)
}

//go:norace
func CompareAndSwapUint32(a *uint32, o, n uint32) bool {
	wr(unsafe.Pointer(a), "CompareAndSwapUint32")
	return atomic.CompareAndSwapUint32(a, o, n)
}

//go:norace
func CompareAndSwapUint64(a *uint64, o, n uint64) bool {
	wr(unsafe.Pointer(a), "CompareAndSwapUint64")
	return atomic.CompareAndSwapUint64(a, o, n)
}

//go:norace
func CompareAndSwapUintptr(a *uintptr, o, n uintptr) bool {
	wr(unsafe.Pointer(a), "CompareAndSwapUintptr")
	return atomic.CompareAndSwapUintptr(a, o, n)
}

//go:norace
func CompareAndSwapPointer(a *unsafe.Pointer, o, n unsafe.Pointer) bool {
	wr(unsafe.Pointer(a), "CompareAndSwapPointer")
	return atomic.CompareAndSwapPointer(a, o, n)
}

// Value is a scheduled atomic.Value.
type Value struct{ v atomic.Value }

//go:norace
func (v *Value) Load() interface{} { rd(unsafe.Pointer(v), "Value.Load"); return v.v.Load() }

//go:norace
func (v *Value) Store(x interface{}) {
	wr(unsafe.Pointer(v), "Value.Store")
	v.v.Store(x)
	if h := StoreHook; h != nil {
		h(x)
	}
}

//go:norace
func (v *Value) Swap(x interface{}) interface{} {
	wr(unsafe.Pointer(v), "Value.Swap")
	return v.v.Swap(x)
}

//go:norace
func (v *Value) CompareAndSwap(o, n interface{}) bool {
	wr(unsafe.Pointer(v), "Value.CompareAndSwap")
	return v.v.CompareAndSwap(o, n)
}

// Typed atomics.
type Int32 struct{ v atomic.Int32 }

//go:norace
func (x *Int32) Load() int32 { rd(unsafe.Pointer(x), "Int32.Load"); return x.v.Load() }

//go:norace
func (x *Int32) Store(v int32) { wr(unsafe.Pointer(x), "Int32.Store"); x.v.Store(v) }

//go:norace
func (x *Int32) Add(d int32) int32 { wr(unsafe.Pointer(x), "Int32.Add"); return x.v.Add(d) }

//go:norace
func (x *Int32) Swap(v int32) int32 { wr(unsafe.Pointer(x), "Int32.Swap"); return x.v.Swap(v) }

//go:norace
func (x *Int32) CompareAndSwap(o, n int32) bool {
	wr(unsafe.Pointer(x), "Int32.CompareAndSwap")
	return x.v.CompareAndSwap(o, n)
}

type Int64 struct{ v atomic.Int64 }

//go:norace
func (x *Int64) Load() int64 { rd(unsafe.Pointer(x), "Int64.Load"); return x.v.Load() }

//go:norace
func (x *Int64) Store(v int64) { wr(unsafe.Pointer(x), "Int64.Store"); x.v.Store(v) }

//go:norace
func (x *Int64) Add(d int64) int64 { wr(unsafe.Pointer(x), "Int64.Add"); return x.v.Add(d) }

//go:norace
func (x *Int64) Swap(v int64) int64 { wr(unsafe.Pointer(x), "Int64.Swap"); return x.v.Swap(v) }

//go:norace
func (x *Int64) CompareAndSwap(o, n int64) bool {
	wr(unsafe.Pointer(x), "Int64.CompareAndSwap")
	return x.v.CompareAndSwap(o, n)
}

type Uint32 struct{ v atomic.Uint32 }

//go:norace
func (x *Uint32) Load() uint32 { rd(unsafe.Pointer(x), "Uint32.Load"); return x.v.Load() }

//go:norace
func (x *Uint32) Store(v uint32) { wr(unsafe.Pointer(x), "Uint32.Store"); x.v.Store(v) }

//go:norace
func (x *Uint32) Add(d uint32) uint32 { wr(unsafe.Pointer(x), "Uint32.Add"); return x.v.Add(d) }

//go:norace
func (x *Uint32) Swap(v uint32) uint32 { wr(unsafe.Pointer(x), "Uint32.Swap"); return x.v.Swap(v) }

//go:norace
func (x *Uint32) CompareAndSwap(o, n uint32) bool {
	wr(unsafe.Pointer(x), "Uint32.CompareAndSwap")
	return x.v.CompareAndSwap(o, n)
}

type Uint64 struct{ v atomic.Uint64 }

//go:norace
func (x *Uint64) Load() uint64 { rd(unsafe.Pointer(x), "Uint64.Load"); return x.v.Load() }

//go:norace
func (x *Uint64) Store(v uint64) { wr(unsafe.Pointer(x), "Uint64.Store"); x.v.Store(v) }

//go:norace
func (x *Uint64) Add(d uint64) uint64 { wr(unsafe.Pointer(x), "Uint64.Add"); return x.v.Add(d) }

//go:norace
func (x *Uint64) Swap(v uint64) uint64 { wr(unsafe.Pointer(x), "Uint64.Swap"); return x.v.Swap(v) }

//go:norace
func (x *Uint64) CompareAndSwap(o, n uint64) bool {
	wr(unsafe.Pointer(x), "Uint64.CompareAndSwap")
	return x.v.CompareAndSwap(o, n)
}

type Bool struct{ v atomic.Bool }

//go:norace
func (x *Bool) Load() bool { rd(unsafe.Pointer(x), "Bool.Load"); return x.v.Load() }

//go:norace
func (x *Bool) Store(v bool) { wr(unsafe.Pointer(x), "Bool.Store"); x.v.Store(v) }

//go:norace
func (x *Bool) Swap(v bool) bool { wr(unsafe.Pointer(x), "Bool.Swap"); return x.v.Swap(v) }

//go:norace
func (x *Bool) CompareAndSwap(o, n bool) bool {
	wr(unsafe.Pointer(x), "Bool.CompareAndSwap")
	return x.v.CompareAndSwap(o, n)
}
