// Package vctx replaces "context" in the instrumented kubebrain packages.  Everything is re-exported
// from the real package (facade_gen.go, generated); cancellation is made visible to the scheduler and
// deadlines follow the virtual clock while a scheduler is installed.
package vctx

import (
	"context"
	"time"

	"github.com/kubewharf/kubebrain/zz_verif/rt/vrt"
)

// WithCancel is context.WithCancel whose cancel function is a visible write.
func WithCancel(parent Context) (Context, CancelFunc) {
	ctx, cancel := context.WithCancel(parent)
	if !vrt.Virtual() {
		return ctx, cancel
	}
	return ctx, func() {
		vrt.CtxCancel()
		cancel()
	}
}

type deadlineCtx struct {
	context.Context
	deadline time.Time
	fired    *bool
}

func (c *deadlineCtx) Deadline() (time.Time, bool) { return c.deadline, true }
func (c *deadlineCtx) Err() error {
	err := c.Context.Err()
	if err != nil && *c.fired {
		return context.DeadlineExceeded
	}
	return err
}

// WithDeadline follows the virtual clock.
func WithDeadline(parent Context, d time.Time) (Context, CancelFunc) {
	if !vrt.Virtual() {
		return context.WithDeadline(parent, d)
	}
	if cur, ok := parent.Deadline(); ok && cur.Before(d) {
		return WithCancel(parent)
	}
	ctx, cancel := context.WithCancel(parent)
	fired := new(bool)
	dc := &deadlineCtx{Context: ctx, deadline: d, fired: fired}
	dur := d.Sub(vrt.Now())
	if dur <= 0 {
		*fired = true
		cancel()
		return dc, func() {}
	}
	t := vrt.AfterInline(dur, func() {
		if ctx.Err() == nil {
			*fired = true
		}
		vrt.CtxCancel()
		cancel()
	})
	return dc, func() {
		t.Stop()
		vrt.CtxCancel()
		cancel()
	}
}

// WithTimeout follows the virtual clock.
func WithTimeout(parent Context, d time.Duration) (Context, CancelFunc) {
	if !vrt.Virtual() {
		return context.WithTimeout(parent, d)
	}
	return WithDeadline(parent, vrt.Now().Add(d))
}
