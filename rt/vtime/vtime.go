// Package vtime replaces "time" in the instrumented kubebrain packages.  Everything is re-exported
// from the real package (facade_gen.go, generated); the clock entry points below are virtual while a
// scheduler is installed and real otherwise.
package vtime

import (
	"time"

	"github.com/kubewharf/kubebrain/zz_verif/rt/vrt"
)

func Now() Time                    { return vrt.Now() }
func Since(t Time) Duration        { return Now().Sub(t) }
func Until(t Time) Duration        { return t.Sub(Now()) }
func Sleep(d Duration)             { vrt.Sleep(d) }
func After(d Duration) <-chan Time { return NewTimer(d).C }
func Tick(d Duration) <-chan Time  { return NewTicker(d).C }

// Timer mirrors time.Timer.
type Timer struct {
	C <-chan Time
	r *time.Timer
	v *vrt.Timer
}

// Ticker mirrors time.Ticker.
type Ticker struct {
	C <-chan Time
	r *time.Ticker
	v *vrt.Timer
	c chan Time
}

func NewTimer(d Duration) *Timer {
	if !vrt.Virtual() {
		r := time.NewTimer(d)
		return &Timer{C: r.C, r: r}
	}
	c := make(chan Time, 1)
	v := vrt.AfterInline(d, func() {
		select {
		case c <- vrt.Now():
		default:
		}
	})
	return &Timer{C: c, v: v}
}

func AfterFunc(d Duration, f func()) *Timer {
	if !vrt.Virtual() {
		return &Timer{r: time.AfterFunc(d, f)}
	}
	return &Timer{v: vrt.AfterFunc(d, f)}
}

func (t *Timer) Stop() bool {
	if t.r != nil {
		return t.r.Stop()
	}
	return t.v.Stop()
}

func (t *Timer) Reset(d Duration) bool {
	if t.r != nil {
		return t.r.Reset(d)
	}
	return t.v.Reset(d)
}

func NewTicker(d Duration) *Ticker {
	if d <= 0 {
		panic("non-positive interval for NewTicker")
	}
	if !vrt.Virtual() {
		r := time.NewTicker(d)
		return &Ticker{C: r.C, r: r}
	}
	c := make(chan Time, 1)
	v := vrt.NewPeriodic(d, d, func() {
		select {
		case c <- vrt.Now():
		default:
		}
	})
	return &Ticker{C: c, v: v, c: c}
}

func (t *Ticker) Stop() {
	if t.r != nil {
		t.r.Stop()
		return
	}
	t.v.Stop()
}

func (t *Ticker) Reset(d Duration) {
	if t.r != nil {
		t.r.Reset(d)
		return
	}
	t.v.Stop()
	c := t.c
	t.v = vrt.NewPeriodic(d, d, func() {
		select {
		case c <- vrt.Now():
		default:
		}
	})
}
