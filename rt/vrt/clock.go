package vrt

import (
	"sort"
	"time"
	"unsafe"
)

// The virtual clock only moves when harness code calls Advance.

// Base is the wall-clock reading that corresponds to virtual time zero.
var Base = time.Date(2022, 1, 1, 0, 0, 0, 0, time.UTC)

// Now returns the virtual time, or the real time when no scheduler is installed.
//
//go:norace
func Now() time.Time {
	s := s_
	if s == nil {
		return time.Now()
	}
	return Base.Add(time.Duration(s.now))
}

// Virtual reports whether time is virtual.
//
//go:norace
func Virtual() bool { return s_ != nil }

// NowNanos is the virtual clock reading.
//
//go:norace
func NowNanos() int64 {
	if s := s_; s != nil {
		return s.now
	}
	return 0
}

//go:norace
func (s *sched) addTimer(d time.Duration, period time.Duration, ch chan int64, fn, inline func()) *Timer {
	s.timerSeq++
	t := &vtimer{when: s.now + int64(d), seq: s.timerSeq, period: int64(period), ch: ch, fn: fn, inline: inline}
	s.timers = append(s.timers, t)
	return &Timer{t}
}

// NewPeriodic registers a periodic virtual timer whose callback runs inside Advance (must not block).
//
//go:norace
func NewPeriodic(d, period time.Duration, fn func()) *Timer {
	s := s_
	if s == nil || s.off() {
		return nil
	}
	return s.addTimer(d, period, nil, nil, fn)
}

// AfterFunc runs fn as a new thread when the virtual clock reaches now+d.
//
//go:norace
func AfterFunc(d time.Duration, fn func()) *Timer {
	s := s_
	if s == nil || s.off() {
		return nil
	}
	return s.addTimer(d, 0, nil, fn, nil)
}

// AfterInline runs fn inside Advance when the virtual clock reaches now+d (fn must not block).
//
//go:norace
func AfterInline(d time.Duration, fn func()) *Timer {
	s := s_
	if s == nil || s.off() {
		return nil
	}
	return s.addTimer(d, 0, nil, nil, fn)
}

// Stop cancels the timer; it reports whether the timer was still pending.
//
//go:norace
func (t *Timer) Stop() bool {
	if t == nil || t.t == nil {
		return false
	}
	was := !t.t.stopped
	t.t.stopped = true
	return was
}

// Reset re-arms a one-shot timer.
//
//go:norace
func (t *Timer) Reset(d time.Duration) bool {
	s := s_
	if t == nil || t.t == nil || s == nil {
		return false
	}
	was := !t.t.stopped
	t.t.stopped = false
	t.t.when = s.now + int64(d)
	found := false
	for _, x := range s.timers {
		if x == t.t {
			found = true
		}
	}
	if !found {
		s.timers = append(s.timers, t.t)
	}
	return was
}

// Advance moves the virtual clock forward by d, firing due timers in (deadline, creation) order.
// It is called by harness threads; it is not a scheduling point by itself.
//
//go:norace
func Advance(d time.Duration) {
	s := s_
	if s == nil || s.off() {
		return
	}
	target := s.now + int64(d)
	for {
		var due *vtimer
		for _, t := range s.timers {
			if t.stopped || t.when > target {
				continue
			}
			if due == nil || t.when < due.when || t.when == due.when && t.seq < due.seq {
				due = t
			}
		}
		if due == nil {
			break
		}
		if due.when > s.now {
			s.now = due.when
		}
		s.epoch++
		if due.period > 0 {
			due.when += due.period
		} else {
			due.stopped = true
		}
		switch {
		case due.inline != nil:
			due.inline()
		case due.fn != nil:
			s.spawn(s.cur, due.fn, true)
		case due.ch != nil:
			select {
			case due.ch <- s.now:
			default:
			}
		}
	}
	s.now = target
	s.epoch++
	s.ev(s.cur, 0x65, unsafe.Pointer(&gClock), true)
	// drop dead timers
	live := s.timers[:0]
	for _, t := range s.timers {
		if !t.stopped {
			live = append(live, t)
		}
	}
	s.timers = live
	sort.SliceStable(s.timers, func(i, j int) bool { return s.timers[i].seq < s.timers[j].seq })
}

// Sleep blocks the calling thread until the virtual clock has advanced by d.
//
//go:norace
func Sleep(d time.Duration) {
	s := s_
	if s == nil {
		time.Sleep(d)
		return
	}
	if s.off() {
		return
	}
	s.cur.dline = s.now + int64(d)
	s.point(OpSleep, nil, false, false, "sleep")
}

// PendingTimers is the number of armed virtual timers (harness diagnostics).
//
//go:norace
func PendingTimers() int {
	if s := s_; s != nil {
		n := 0
		for _, t := range s.timers {
			if !t.stopped {
				n++
			}
		}
		return n
	}
	return 0
}
