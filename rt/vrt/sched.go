// Package vrt is the cooperative scheduler under which the instrumented kubebrain packages run.
//
// Exactly one registered thread runs at a time.  Every synchronisation operation of the
// instrumented code reaches a "point": the thread publishes a descriptor of the operation it is
// about to perform, a scheduling decision is taken, and the baton is handed to the chosen thread.
// The real operation (real mutex, real channel, real atomic) is executed by the thread itself right
// after it has been granted, when it is known not to block.
//
// When no scheduler is installed every entry point is a pass-through.
package vrt

import (
	"fmt"
	"runtime"
	"sort"
	"strings"
	"unsafe"
)

// OpKind describes what a parked thread is waiting to do.
type OpKind uint8

const (
	OpRun     OpKind = iota // always enabled (yield, atomic, start, resume)
	OpLock                  // Mutex.Lock           obj=*MutexState
	OpRWLock                // RWMutex.Lock         obj=*RWState
	OpRLock                 // RWMutex.RLock        obj=*RWState
	OpWGWait                // WaitGroup.Wait       obj=*WGState
	OpRecv                  // channel receive      obj=hchan
	OpSend                  // channel send         obj=hchan
	OpSelect                // select               cases
	OpSleep                 // virtual clock        deadline
	OpSpin                  // read-only cycle: wait for a write by somebody
	OpQuiesce               // wait until nothing else can run
	OpJoin                  // wait for a thread to finish
)

var opNames = [...]string{"run", "lock", "wlock", "rlock", "wgwait", "recv", "send", "select", "sleep", "spin", "quiesce", "join"}

//go:norace
func (k OpKind) String() string { return opNames[k] }

// Mode tells a shim how to perform the real operation.
type Mode uint8

const (
	Pass     Mode = iota // no scheduler: behave like the real primitive
	Active               // scheduled: the operation has been granted and will not block
	Teardown             // execution is being torn down: never block
)

// MutexState, RWState and WGState are embedded by the vsync shims so that the scheduler can decide
// enabledness from plain data.
type MutexState struct{ Held bool }
type RWState struct {
	W bool
	R int
}
type WGState struct{ N int }

// SelCase is one communication clause of a select statement.
type SelCase struct {
	Send bool
	Ch   unsafe.Pointer
}

// Thread is a registered goroutine.
type Thread struct {
	idx     int
	name    []int
	Name    string
	goid    uint64
	done    bool
	daemon  bool
	op      OpKind
	obj     unsafe.Pointer
	cases   []SelCase
	hasDef  bool
	dline   int64
	spinEp  uint64
	forced  bool
	joinT   *Thread
	wake    chan struct{}
	turn    int // spin baton (race builds)
	exited  chan struct{}
	spawns  int
	fn      func()
	label   string
	nops    int
	handoff bool
	hsel    int
	acked   bool

	seenEp uint64
	seen   [24]uint64
	nseen  int

	h uint64 // hash of the thread's causal history (happens-before fingerprint)

	// an excursion of a spinning thread that re-reads shared state, finds nothing and parks again
	// while nobody wrote anything is rolled back in the fingerprint: it is as if it had not run
	cycOK  bool
	cycEp  uint64
	cycH   uint64
	cycLog [16]cycRead
	cycN   int
}

type cycRead struct {
	o *objState
	e uint64
}

// Done reports whether the thread function has returned.
//
//go:norace
func (t *Thread) Done() bool { return t.done }

const maxForcedRounds = 2

type abortSentinel struct{}

type vtimer struct {
	when    int64
	seq     int
	period  int64
	ch      chan int64 // fired timers/tickers deliver the virtual time here (adapted by vtime)
	fn      func()     // AfterFunc: run as a new thread
	inline  func()     // run inline by the advancing thread (context deadlines)
	stopped bool
}

// Timer is the handle the vtime/vctx shims hold.
type Timer struct{ t *vtimer }

type sched struct {
	threads []*Thread
	order   []*Thread // sorted by name
	main    *Thread
	cur     *Thread
	epoch   uint64

	forcedEp     uint64
	forcedRounds int

	teardown bool
	aborting bool
	abortWhy string
	panicMsg string

	now      int64
	timers   []*vtimer
	timerSeq int

	exploring bool
	prefix    []int
	prefixN   []int
	choices   []int
	ncands    []int
	curFirst  []bool
	nodeHash  []uint64
	thash     uint64
	objs      map[unsafe.Pointer]*objState
	chanIDs   map[unsafe.Pointer]int // creation rank of channels made by instrumented code (maps.go)
	fsum      uint64   // commutative combination of all thread hashes: the state fingerprint
	fps       []uint64 // fingerprint at each recorded decision
	epochAt   []uint64 // write epoch at each recorded decision
	chosenT   []int    // index of the thread chosen at each recorded decision (-1: not a thread choice)
	parks     []SpinPark

	steps   int
	horizon int

	trace   bool
	ops     []OpRec
	cands   []*Thread
	goidChk bool

	handoffR   *Thread
	handoffAck chan struct{}

	stepHook func()
	diverged string
}

type objState struct{ w, r uint64 }

// global pseudo-objects for operations that conflict with each other without sharing an address
var gYield, gMark, gCtx, gClock byte

//go:norace
func spread(h uint64) uint64 {
	h ^= h >> 33
	h *= 0xff51afd7ed558ccd
	h ^= h >> 33
	h *= 0xc4ceb9fe1a85ec53
	h ^= h >> 33
	return h
}

// ev records one event of thread t in the happens-before fingerprint: the event's hash is a function
// of the thread's previous event and of the last conflicting event(s) on the object.
//
//go:norace
func (s *sched) ev(t *Thread, kind uint64, obj unsafe.Pointer, write bool) {
	old := t.h
	e := mix(mix(old, kind+0x9e37), 0x51)
	if obj != nil {
		o := s.objs[obj]
		if o == nil {
			o = &objState{}
			s.objs[obj] = o
		}
		if write {
			e = mix(mix(e, o.w), o.r+1)
			e = spread(e)
			o.w, o.r = e, 0
			t.cycOK = false
		} else {
			e = spread(mix(e, o.w))
			o.r += e
			if t.cycOK {
				if t.cycN < len(t.cycLog) {
					t.cycLog[t.cycN] = cycRead{o, e}
					t.cycN++
				} else {
					t.cycOK = false
				}
			}
		}
	} else {
		e = spread(e)
		if write {
			t.cycOK = false
		}
	}
	t.h = e
	s.fsum += spread(e^0xabcdef) - spread(old^0xabcdef)
}

// evDep adds a read dependency on obj to the thread's last event.
//
//go:norace
func (s *sched) evDep(t *Thread, obj unsafe.Pointer) { s.ev(t, 0x77, obj, false) }

// SpinPark records that a thread fell back into its read-only cycle.
type SpinPark struct {
	Decision int // number of decisions recorded before the park
	Thread   int
	Epoch    uint64
}

// OpRec is one granted operation (only recorded when Config.Trace is set).
type OpRec struct {
	Thread string
	Kind   string
	Label  string
}

// S is the installed scheduler (nil: pass-through).
var s_ *sched

// Config parametrises one execution.
type Config struct {
	Horizon  int   // max points; 0 = default
	Prefix   []int // choices to replay
	PrefixN  []int // expected number of candidates at each replayed decision (optional)
	Trace    bool
	GoidChk  bool
	StepHook func() // called (outside the schedule) after every granted operation
	// ExploreFromStart: decisions are recorded from the beginning; otherwise only after BeginExplore.
	ExploreFromStart bool
}

// Result describes one execution.
type Result struct {
	Choices   []int
	NCands    []int
	CurFirst  []bool // alternative choices at this decision preempt a runnable thread
	NodeHash  []uint64
	TraceHash uint64
	Steps     int
	Deadlock  bool
	Horizon   bool
	Panic     string
	Diverged  string
	Ops       []OpRec
	Blocked   []string // description of blocked threads on deadlock
	EpochAt   []uint64
	ChosenT   []int
	Parks     []SpinPark
	FP        []uint64 // happens-before fingerprint of the state at each decision
}

// NoopExcursion reports whether the thread chosen at decision i did nothing but re-read shared state
// and fall back into its read-only cycle before anybody wrote anything: the state after the
// excursion equals the state before it, so the subtree below this choice is covered by the subtrees
// of the other choices at decision i.
//
// It returns the number of decisions recorded when the thread parked again: decisions from there on
// need not be expanded; decisions inside the excursion (the thread may be preempted between two of
// its reads) still are.
//
//go:norace
func (r *Result) NoopExcursion(i int) (bool, int) {
	if i >= len(r.ChosenT) || r.ChosenT[i] < 0 {
		return false, 0
	}
	for _, p := range r.Parks {
		if p.Decision > i && p.Thread == r.ChosenT[i] {
			// first park of that thread after the decision
			if p.Epoch != r.EpochAt[i] {
				return false, 0
			}
			// no other thread may have been chosen in between
			for k := i + 1; k < p.Decision && k < len(r.ChosenT); k++ {
				if r.ChosenT[k] != r.ChosenT[i] {
					return false, 0
				}
			}
			return true, p.Decision
		}
	}
	return false, 0
}

// Active reports whether a scheduler is installed and not tearing down.
//
//go:norace
func IsActive() bool { s := s_; return s != nil && !s.teardown }

// Run executes body as the main thread of a fresh scheduled execution.
//
//go:norace
func Run(cfg Config, body func()) *Result {
	if s_ != nil {
		panic("vrt: nested Run")
	}
	s := &sched{horizon: cfg.Horizon, prefix: cfg.Prefix, prefixN: cfg.PrefixN, trace: cfg.Trace,
		goidChk: cfg.GoidChk, handoffAck: make(chan struct{}), stepHook: cfg.StepHook,
		exploring: cfg.ExploreFromStart}
	if s.horizon == 0 {
		s.horizon = 200000
	}
	s.thash = 1469598103934665603
	s.objs = map[unsafe.Pointer]*objState{}
	res := &Result{}
	fin := make(chan struct{})
	m := s.newThread(nil, body)
	s.main = m
	s.cur = m
	s_ = s
	go func() {
		defer close(fin)
		defer func() {
			// main body finished, aborted or panicked
			if r := recover(); r != nil {
				if _, ok := r.(abortSentinel); !ok {
					s.panicMsg = fmt.Sprintf("main: %v\n%s", r, stack())
				}
			}
			m.done = true
			s.doTeardown()
		}()
		park(m)
		m.goid = goid()
		body()
	}()
	unpark(m)
	<-fin
	s_ = nil
	res.Choices, res.NCands, res.CurFirst, res.NodeHash = s.choices, s.ncands, s.curFirst, s.nodeHash
	res.TraceHash, res.Steps, res.Ops = s.thash, s.steps, s.ops
	res.EpochAt, res.ChosenT, res.Parks, res.FP = s.epochAt, s.chosenT, s.parks, s.fps
	res.Panic = s.panicMsg
	res.Diverged = s.diverged
	switch s.abortWhy {
	case "deadlock":
		res.Deadlock = true
		for _, t := range s.order {
			if !t.done || t == m {
				res.Blocked = append(res.Blocked, fmt.Sprintf("%s:%s:%s", t.Name, t.op, t.label))
			}
		}
	case "horizon":
		res.Horizon = true
	}
	return res
}

// off: the execution is ending (teardown, or main is being unwound); operations must not schedule.
//
//go:norace
func (s *sched) off() bool { return s.teardown || s.aborting }

//go:norace
func (s *sched) doTeardown() {
	s.teardown = true
	for i := 0; i < len(s.threads); i++ { // threads may still be appended by deferred functions? (no: Go is pass-through in teardown)
		t := s.threads[i]
		if t == s.main {
			continue
		}
		select {
		case <-t.exited:
			continue
		default:
		}
		unpark(t)
		<-t.exited
	}
}

//go:norace
func (s *sched) newThread(parent *Thread, fn func()) *Thread {
	t := &Thread{idx: len(s.threads), wake: make(chan struct{}, 1), exited: make(chan struct{}), fn: fn}
	if parent != nil {
		t.name = append(append([]int{}, parent.name...), parent.spawns)
		parent.spawns++
	} else {
		t.name = []int{0}
	}
	var sb strings.Builder
	for i, n := range t.name {
		if i > 0 {
			sb.WriteByte('.')
		}
		fmt.Fprintf(&sb, "%d", n)
	}
	t.Name = sb.String()
	t.h = spread(hashName(t.name))
	if parent != nil {
		// the spawn is an event of the parent and the origin of the child's history
		s.ev(parent, 0x60, nil, true)
		t.h = spread(mix(parent.h, hashName(t.name)))
	}
	s.fsum += spread(t.h ^ 0xabcdef)
	s.threads = append(s.threads, t)
	// insert sorted by name
	i := sort.Search(len(s.order), func(i int) bool { return nameLess(t.name, s.order[i].name) })
	s.order = append(s.order, nil)
	copy(s.order[i+1:], s.order[i:])
	s.order[i] = t
	return t
}

//go:norace
func nameLess(a, b []int) bool {
	for i := 0; i < len(a) && i < len(b); i++ {
		if a[i] != b[i] {
			return a[i] < b[i]
		}
	}
	return len(a) < len(b)
}

// Go starts fn as a registered thread (or as a plain goroutine when no scheduler is installed).
//
//go:norace
func Go(fn func()) *Thread {
	s := s_
	if s == nil {
		go fn()
		return nil
	}
	if s.off() {
		return nil // the execution is over: the goroutine is never started
	}
	return s.spawn(s.cur, fn, false)
}

// GoDaemon is Go for threads the harness does not expect to finish.
//
//go:norace
func GoDaemon(fn func()) *Thread {
	s := s_
	if s == nil {
		go fn()
		return nil
	}
	if s.off() {
		return nil
	}
	return s.spawn(s.cur, fn, true)
}

//go:norace
func (s *sched) spawn(parent *Thread, fn func(), daemon bool) *Thread {
	t := s.newThread(parent, fn)
	t.daemon = daemon
	t.op = OpRun
	t.label = "start"
	s.epoch++
	go s.threadMain(t)
	return t
}

// threadMain is the body of the goroutine of a registered thread.
//
//go:norace
func (s *sched) threadMain(t *Thread) {
	defer close(t.exited)
	park(t)
	if s.teardown {
		return
	}
	t.goid = goid()
	defer s.threadEnd(t)
	t.fn()
}

//go:norace
func (s *sched) threadEnd(t *Thread) {
	if s.teardown {
		// Goexit during teardown or a panic raised by a deferred function during teardown
		recover()
		return
	}
	if r := recover(); r != nil {
		if _, ok := r.(abortSentinel); !ok && s.panicMsg == "" {
			s.panicMsg = fmt.Sprintf("thread %s: %v\n%s", t.Name, r, stack())
		}
		t.done = true
		s.abort("panic", nil)
		return
	}
	t.done = true
	s.epoch++
	s.ev(t, 0x61, unsafe.Pointer(t), true)
	s.schedule(nil)
}

//go:norace
func stack() string {
	buf := make([]byte, 16384)
	n := runtime.Stack(buf, false)
	return string(buf[:n])
}

// abort ends the execution: main is unwound, the calling thread (if any, and not main) parks until teardown.
//
//go:norace
func (s *sched) abort(why string, me *Thread) {
	if s.abortWhy == "" {
		s.abortWhy = why
	}
	s.aborting = true
	if me == s.main {
		panic(abortSentinel{})
	}
	if !s.main.done {
		s.cur = s.main
		unpark(s.main)
	}
	if me != nil {
		park(me)
		s.afterWake(me)
	}
}

//go:norace
func (s *sched) afterWake(me *Thread) {
	if s.teardown {
		runtime.Goexit()
	}
	if s.aborting && me == s.main {
		panic(abortSentinel{})
	}
}

//go:norace
func (s *sched) enabled(t *Thread) bool {
	switch t.op {
	case OpRun:
		return true
	case OpLock:
		return !(*MutexState)(t.obj).Held
	case OpRWLock:
		st := (*RWState)(t.obj)
		return !st.W && st.R == 0
	case OpRLock:
		return !(*RWState)(t.obj).W
	case OpWGWait:
		return (*WGState)(t.obj).N <= 0
	case OpRecv:
		return recvReady(t.obj)
	case OpSend:
		return s.sendReady(t.obj, t)
	case OpSelect:
		if t.hasDef {
			return true
		}
		for _, c := range t.cases {
			if s.caseReady(c, t) {
				return true
			}
		}
		return false
	case OpSleep:
		return s.now >= t.dline
	case OpSpin:
		return t.forced || s.epoch != t.spinEp
	case OpQuiesce:
		return t.forced
	case OpJoin:
		return t.joinT.done
	}
	return false
}

//go:norace
func (s *sched) caseReady(c SelCase, t *Thread) bool {
	if c.Send {
		return s.sendReady(c.Ch, t)
	}
	return recvReady(c.Ch)
}

// pick chooses the next thread to run; me is the thread taking the decision (nil on thread exit).
//
//go:norace
func (s *sched) pick(me *Thread) *Thread {
	for {
		cands := s.cands[:0]
		if me != nil && s.enabled(me) {
			cands = append(cands, me)
		}
		for _, t := range s.order {
			if t != me && !t.done && s.enabled(t) {
				cands = append(cands, t)
			}
		}
		s.cands = cands
		if len(cands) == 0 {
			if s.forcedEp != s.epoch {
				s.forcedEp, s.forcedRounds = s.epoch, 0
			}
			any := false
			hasQ := false
			for _, t := range s.order {
				if !t.done && t.op == OpQuiesce && !t.forced {
					hasQ = true
				}
			}
			// Threads parked as spinners are resumed when nothing else can run.  If somebody waits for
			// quiescence a few confirmation rounds suffice (a real spin loop cycles again at once); if
			// nobody does, a "spinner" may just be a long read-only loop (a harness thread reading
			// through an engine that is not instrumented) and is resumed for as long as it takes.
			limit := maxForcedRounds
			if !hasQ {
				limit = 5000
			}
			if s.forcedRounds < limit {
				for _, t := range s.order {
					if !t.done && t.op == OpSpin && !t.forced {
						t.forced, any = true, true
					}
				}
				if any {
					s.forcedRounds++
					continue
				}
			}
			for _, t := range s.order {
				if !t.done && t.op == OpQuiesce && !t.forced {
					t.forced, any = true, true
				}
			}
			if any {
				continue
			}
			return nil
		}
		c := s.decide(len(cands), me != nil && cands[0] == me, cands)
		return cands[c]
	}
}

//go:norace
func mix(h, v uint64) uint64 {
	h ^= v
	h *= 1099511628211
	return h
}

//go:norace
func hashName(n []int) uint64 {
	h := uint64(7)
	for _, x := range n {
		h = mix(h, uint64(x)+1)
	}
	return h
}

//go:norace
func (s *sched) decide(n int, curFirst bool, cands []*Thread) int {
	if n == 1 || !s.exploring {
		return 0
	}
	i := len(s.choices)
	c := 0
	if i < len(s.prefix) {
		c = s.prefix[i]
		if c >= n || (i < len(s.prefixN) && s.prefixN[i] != n) {
			if s.diverged == "" {
				s.diverged = fmt.Sprintf("decision %d: replaying choice %d of %d candidates (expected %v)", i, c, n, s.prefixN)
			}
			if c >= n {
				c = 0
			}
		}
	}
	s.nodeHash = append(s.nodeHash, s.thash)
	kindFlag := uint64(n) << 1
	if cands != nil {
		kindFlag |= 1
	}
	curIdx := uint64(0)
	if s.cur != nil {
		curIdx = hashName(s.cur.name)
		if curFirst {
			curIdx++
		}
	}
	s.fps = append(s.fps, spread(s.fsum^mix(curIdx, kindFlag)))
	s.epochAt = append(s.epochAt, s.epoch)
	if cands != nil {
		s.chosenT = append(s.chosenT, cands[c].idx)
	} else {
		s.chosenT = append(s.chosenT, -1)
	}
	s.choices = append(s.choices, c)
	s.ncands = append(s.ncands, n)
	s.curFirst = append(s.curFirst, curFirst)
	return c
}

// schedule takes a scheduling decision on behalf of me (nil: a thread that is exiting).
//
//go:norace
func (s *sched) schedule(me *Thread) {
	next := s.pick(me)
	if next == nil {
		// nothing can run
		if s.main.done {
			return
		}
		s.abort("deadlock", me)
		return
	}
	if next == me {
		return
	}
	s.cur = next
	unpark(next)
	if me != nil {
		park(me)
		s.afterWake(me)
	}
}

// point is the common path of every scheduled operation.
//
//go:norace
func (s *sched) point(kind OpKind, obj unsafe.Pointer, write bool, spinnable bool, label string) *Thread {
	t := s.cur
	if s.goidChk {
		if g := goid(); g != t.goid {
			panic(fmt.Sprintf("vrt: operation %q from goroutine %d which is not the running thread %s (goroutine %d)", label, g, t.Name, t.goid))
		}
	}
	s.steps++
	if s.steps > s.horizon {
		s.abort("horizon", t)
	}
	t.op, t.obj, t.label = kind, obj, label
	var h uint64
	if spinnable {
		if t.seenEp != s.epoch {
			t.seenEp, t.nseen = s.epoch, 0
		}
		h = stackHash()
		dup := false
		for i := 0; i < t.nseen; i++ {
			if t.seen[i] == h {
				dup = true
				break
			}
		}
		if dup {
			if t.cycOK && t.cycEp == s.epoch {
				// unproductive excursion: undo its reads
				for i := 0; i < t.cycN; i++ {
					t.cycLog[i].o.r -= t.cycLog[i].e
				}
				s.fsum += spread(t.cycH^0xabcdef) - spread(t.h^0xabcdef)
				t.h = t.cycH
			}
			t.cycOK = false
			t.op, t.spinEp = OpSpin, s.epoch
			if s.exploring {
				s.parks = append(s.parks, SpinPark{len(s.choices), t.idx, s.epoch})
			}
		} else if t.nseen < len(t.seen) {
			t.seen[t.nseen] = h
			t.nseen++
		}
	}
	s.schedule(t)
	// granted
	if t.op == OpSpin || t.forced {
		t.forced = false
		t.seenEp, t.nseen = s.epoch, 0
		if spinnable {
			t.seen[0], t.nseen = h, 1
		}
		t.cycOK, t.cycEp, t.cycH, t.cycN = true, s.epoch, t.h, 0
	}
	s.granted(t, kind, write, label)
	return t
}

//go:norace
func (s *sched) granted(t *Thread, kind OpKind, write bool, label string) {
	t.nops++
	if write {
		s.epoch++
	}
	switch kind {
	case OpSelect:
		// recorded by Select once the clause is known
	case OpQuiesce:
		// a global barrier: depends on everything that happened
		t.h = mix(t.h, s.fsum)
		s.ev(t, uint64(kind), nil, true)
	case OpJoin:
		s.ev(t, uint64(kind), unsafe.Pointer(t.joinT), false)
	case OpSleep:
		s.ev(t, uint64(kind), unsafe.Pointer(&gClock), false)
	case OpRecv:
		s.ev(t, uint64(kind), t.obj, true)
		if t.obj != nil {
			if _, c, _ := chanState(t.obj); c == 0 {
				s.evDep(t, unsafe.Pointer(&gCtx))
			}
		}
	default:
		s.ev(t, uint64(kind), t.obj, write)
	}
	s.thash = mix(mix(s.thash, hashName(t.name)), uint64(kind)+uint64(t.nops)<<8)
	if s.trace {
		s.ops = append(s.ops, OpRec{t.Name, kind.String(), label})
	}
	t.op = OpRun
	if s.stepHook != nil {
		s.stepHook()
	}
}

//go:norace
func stackHash() uint64 {
	var pcs [24]uintptr
	n := runtime.Callers(3, pcs[:])
	h := uint64(1469598103934665603)
	for i := 0; i < n; i++ {
		h = mix(h, uint64(pcs[i]))
	}
	return h
}

//go:norace
func goid() uint64 {
	var buf [64]byte
	n := runtime.Stack(buf[:], false)
	// "goroutine 123 ["
	var id uint64
	for i := 10; i < n; i++ {
		c := buf[i]
		if c < '0' || c > '9' {
			break
		}
		id = id*10 + uint64(c-'0')
	}
	return id
}

// ---------------------------------------------------------------------------------------------
// entry points used by the shims

// Block is a scheduling point for an operation that may have to wait.  It returns how the real
// operation is to be performed.
//
//go:norace
func Block(kind OpKind, obj unsafe.Pointer, label string) Mode {
	s := s_
	if s == nil {
		return Pass
	}
	if s.off() {
		return Teardown
	}
	s.point(kind, obj, true, false, label)
	return Active
}

// Atomic is a scheduling point for a non-blocking operation; loads are candidates for spin detection.
//
//go:norace
func Atomic(obj unsafe.Pointer, write bool, label string) {
	s := s_
	if s == nil || s.off() {
		return
	}
	s.point(OpRun, obj, write, !write, label)
}

// Write records a non-blocking state change that is not a scheduling point (unlock, Done, ...).
//
//go:norace
func Write(obj unsafe.Pointer, label string) Mode {
	s := s_
	if s == nil {
		return Pass
	}
	if s.off() {
		return Teardown
	}
	s.epoch++
	s.ev(s.cur, 0x62, obj, true)
	if s.trace {
		s.ops = append(s.ops, OpRec{s.cur.Name, "w", label})
	}
	return Active
}

// CtxCancel records a context cancellation (it closes Done channels without a channel operation).
//
//go:norace
func CtxCancel() {
	s := s_
	if s == nil || s.off() {
		return
	}
	s.epoch++
	s.ev(s.cur, 0x63, unsafe.Pointer(&gCtx), true)
}

// Mark records a harness-level event (call, return, commit) whose order relative to other marks the
// oracles observe: marks conflict with each other, so that order is part of the state fingerprint.
//
//go:norace
func Mark() {
	s := s_
	if s == nil || s.off() {
		return
	}
	s.ev(s.cur, 0x64, unsafe.Pointer(&gMark), true)
}

// Yield is an explicit scheduling point (engine decorator, harness clients).
//
//go:norace
func Yield(label string) {
	s := s_
	if s == nil || s.off() {
		return
	}
	s.point(OpRun, unsafe.Pointer(&gYield), true, false, label)
}

// Quiesce blocks the caller until no other thread can run (spinning threads count as blocked).
//
//go:norace
func Quiesce() {
	s := s_
	if s == nil || s.off() {
		return
	}
	s.point(OpQuiesce, nil, false, false, "quiesce")
}

// Join waits for a thread started with Go.
//
//go:norace
func Join(t *Thread) {
	s := s_
	if s == nil || s.off() || t == nil {
		return
	}
	me := s.cur
	me.joinT = t
	s.point(OpJoin, nil, false, false, "join")
}

// BeginExplore opens the exploration window: scheduling decisions are recorded from here on.
//
//go:norace
func BeginExplore() {
	if s := s_; s != nil {
		s.exploring = true
	}
}

// EndExplore closes the exploration window (decisions take the default again).
//
//go:norace
func EndExplore() {
	if s := s_; s != nil {
		s.exploring = false
	}
}

// Choose lets harness code take an explicit enumerated decision (0..n-1) inside the exploration.
//
//go:norace
func Choose(n int) int {
	s := s_
	if s == nil || s.off() || n <= 1 {
		return 0
	}
	return s.decide(n, false, nil)
}

// Epoch returns the number of state-changing operations so far.
//
//go:norace
func Epoch() uint64 {
	if s := s_; s != nil {
		return s.epoch
	}
	return 0
}

// CurName is the name of the running thread.
//
//go:norace
func CurName() string {
	if s := s_; s != nil && s.cur != nil {
		return s.cur.Name
	}
	return ""
}

// Steps returns the number of points executed so far.
//
//go:norace
func Steps() int {
	if s := s_; s != nil {
		return s.steps
	}
	return 0
}

// Note adds a line to the trace (no scheduling effect).
//
//go:norace
func Note(format string, args ...interface{}) {
	if s := s_; s != nil && s.trace && !s.teardown {
		s.ops = append(s.ops, OpRec{s.cur.Name, "note", fmt.Sprintf(format, args...)})
	}
}

// Sched reports whether a scheduler is installed (including while it is tearing down).
//
//go:norace
func Sched() bool { return s_ != nil }

// SetStepHook installs a function that runs (outside the schedule, in the running thread) after
// every granted operation of the current execution.
//
//go:norace
func SetStepHook(f func()) {
	if s := s_; s != nil {
		s.stepHook = f
	}
}
