package vrt

import (
	"fmt"
	"runtime"
	"unsafe"
)

// hchanHdr mirrors the head of runtime.hchan (go1.23: qcount, dataqsiz, buf, elemsize, closed).
// ValidateLayout checks it against real channels at start-up.
type hchanHdr struct {
	qcount   uint
	dataqsiz uint
	buf      unsafe.Pointer
	elemsize uint16
	closed   uint32
}

// ChanPtr extracts the channel pointer from a channel stored in an interface.
//
//go:norace
func ChanPtr(ch interface{}) unsafe.Pointer {
	return (*[2]unsafe.Pointer)(unsafe.Pointer(&ch))[1]
}

//go:norace
func chanState(p unsafe.Pointer) (q, c uint, closed bool) {
	h := (*hchanHdr)(p)
	return h.qcount, h.dataqsiz, h.closed != 0
}

// ChanLen reports buffered elements / capacity / closed of a channel (harness helper).
//
//go:norace
func ChanLen(ch interface{}) (int, int, bool) {
	p := ChanPtr(ch)
	if p == nil {
		return 0, 0, false
	}
	q, c, cl := chanState(p)
	return int(q), int(c), cl
}

// ValidateLayout panics if the channel header layout assumed here is wrong for this toolchain.
//
//go:norace
func ValidateLayout() {
	ch := make(chan int, 3)
	chk := func(q, c uint, cl bool) {
		gq, gc, gcl := chanState(ChanPtr(ch))
		if gq != q || gc != c || gcl != cl {
			panic(fmt.Sprintf("vrt: channel header layout mismatch (%s): got %d/%d/%v want %d/%d/%v", runtime.Version(), gq, gc, gcl, q, c, cl))
		}
	}
	chk(0, 3, false)
	ch <- 1
	ch <- 2
	chk(2, 3, false)
	<-ch
	chk(1, 3, false)
	close(ch)
	chk(1, 3, true)
	u := make(chan struct{})
	if q, c, cl := chanState(ChanPtr(u)); q != 0 || c != 0 || cl {
		panic("vrt: channel header layout mismatch (unbuffered)")
	}
	close(u)
	if _, _, cl := chanState(ChanPtr(u)); !cl {
		panic("vrt: channel header layout mismatch (closed flag)")
	}
	var rc <-chan int = ch
	if ChanPtr(rc) != ChanPtr(ch) {
		panic("vrt: directional channel conversion changes the pointer")
	}
}

//go:norace
func recvReady(p unsafe.Pointer) bool {
	if p == nil {
		return false
	}
	q, _, cl := chanState(p)
	return q > 0 || cl // unbuffered: the rendezvous is driven by the sender
}

//go:norace
func (s *sched) sendReady(p unsafe.Pointer, sender *Thread) bool {
	if p == nil {
		return false
	}
	q, c, cl := chanState(p)
	if cl || q < c {
		return true
	}
	if c == 0 {
		r, _ := s.findReceiver(p, sender)
		return r != nil
	}
	return false
}

//go:norace
func (s *sched) findReceiver(p unsafe.Pointer, sender *Thread) (*Thread, int) {
	for _, t := range s.order {
		if t == sender || t.done {
			continue
		}
		if t.op == OpRecv && t.obj == p {
			return t, -1
		}
		if t.op == OpSelect {
			for i, c := range t.cases {
				if !c.Send && c.Ch == p {
					return t, i
				}
			}
		}
	}
	return nil, 0
}

// startHandoff releases the parked receiver of an unbuffered channel so that the real send of the
// running thread can complete; Sent waits until the receiver has parked again.
//
//go:norace
func (s *sched) startHandoff(p unsafe.Pointer, sender *Thread) {
	q, c, cl := chanState(p)
	if c != 0 || cl || q != 0 {
		return
	}
	r, idx := s.findReceiver(p, sender)
	if r == nil {
		panic("vrt: unbuffered send granted without a receiver")
	}
	r.handoff, r.hsel, r.acked = true, idx, false
	s.handoffR = r
	unpark(r)
}

// Send is the guard placed before `ch <- v`.
//
//go:norace
func Send(ch interface{}) {
	s := s_
	if s == nil {
		return
	}
	p := ChanPtr(ch)
	if s.off() {
		if p == nil {
			runtime.Goexit()
		}
		if q, c, cl := chanState(p); !cl && q >= c {
			runtime.Goexit() // would block for ever during teardown
		}
		return
	}
	t := s.point(OpSend, p, true, false, "send")
	s.startHandoff(p, t)
}

// Sent is placed after `ch <- v`.
//
//go:norace
func Sent() {
	s := s_
	if s == nil || s.handoffR == nil {
		return
	}
	<-s.handoffAck
	s.handoffR = nil
}

// Recv is the guard placed before a receive.
//
//go:norace
func Recv(ch interface{}) {
	s := s_
	if s == nil {
		return
	}
	p := ChanPtr(ch)
	if s.off() {
		if p == nil {
			runtime.Goexit()
		}
		if q, _, cl := chanState(p); !cl && q == 0 {
			runtime.Goexit()
		}
		return
	}
	s.point(OpRecv, p, true, false, "recv")
}

// Recvd is placed after a receive; for a rendezvous it hands control back to the sender.
//
//go:norace
func Recvd() {
	s := s_
	if s == nil {
		return
	}
	r := s.handoffR
	if r == nil || r.acked || !r.handoff {
		return
	}
	r.acked, r.handoff = true, false
	r.op, r.label = OpRun, "recvd"
	s.handoffAck <- struct{}{}
	park(r)
	s.afterWake(r)
}

// Close is the guard placed before close(ch).
//
//go:norace
func Close(ch interface{}) {
	s := s_
	if s == nil || s.off() {
		return
	}
	s.point(OpRun, ChanPtr(ch), true, false, "close")
}

// CaseRecv / CaseSend build select clauses.
//
//go:norace
func CaseRecv(ch interface{}) SelCase { return SelCase{false, ChanPtr(ch)} }

//go:norace
func CaseSend(ch interface{}) SelCase { return SelCase{true, ChanPtr(ch)} }

// Select decides a select statement: it returns the index of the clause to execute, or -1 for default.
//
//go:norace
func Select(hasDefault bool, cases ...SelCase) int {
	s := s_
	if s == nil {
		panic("vrt.Select called without a scheduler (pass-through selects are not rewritten)")
	}
	if s.off() {
		for i, c := range cases {
			if c.Ch == nil {
				continue
			}
			q, cp, cl := chanState(c.Ch)
			if c.Send && (cl || q < cp) || !c.Send && (cl || q > 0) {
				return i
			}
		}
		if hasDefault {
			return -1
		}
		runtime.Goexit()
	}
	t := s.cur
	t.cases, t.hasDef = cases, hasDefault
	s.point(OpSelect, nil, true, false, "select")
	if t.handoff {
		// woken as the receiver of a rendezvous
		s.ev(t, uint64(OpSelect)+uint64(t.hsel)<<8, cases[t.hsel].Ch, true)
		return t.hsel
	}
	var ready [8]int
	n := 0
	for i, c := range cases {
		if s.caseReady(c, t) && n < len(ready) {
			ready[n] = i
			n++
		}
	}
	t.cases = nil
	if n == 0 {
		if !hasDefault {
			panic("vrt: select granted with nothing ready")
		}
		// the poll observed every channel of the statement
		for _, c := range cases {
			s.ev(t, uint64(OpSelect), c.Ch, false)
		}
		s.evDep(t, unsafe.Pointer(&gCtx))
		return -1
	}
	k := 0
	if n > 1 {
		k = s.decide(n, false, nil)
	}
	i := ready[k]
	s.ev(t, uint64(OpSelect)+uint64(i)<<8, cases[i].Ch, true)
	if _, c, _ := chanState(cases[i].Ch); c == 0 {
		s.evDep(t, unsafe.Pointer(&gCtx))
	}
	if cases[i].Send {
		s.startHandoff(cases[i].Ch, t)
	}
	return i
}
