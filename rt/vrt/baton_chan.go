//go:build !race

package vrt

// Channel baton: parked threads block on a per-thread channel.

func park(t *Thread)   { <-t.wake }
func unpark(t *Thread) { t.wake <- struct{}{} }

// RaceBuild reports whether the binary was built with the race detector.
const RaceBuild = false
