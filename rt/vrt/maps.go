package vrt

import (
	"reflect"
	"sort"
	"unsafe"
)

// Map iteration order is a source of nondeterminism the scheduler has to own: the instrumenter
// rewrites `for k, v := range m` over maps in the instrumented packages into a loop over MapKeys(m),
// which yields the keys in a canonical order (strings and integers by value, channels by creation
// order) and, when PermuteMaps is set by the scenario, in every order (an explicit decision).

// PermuteMaps makes every ordered map iteration of at most 3 keys an enumerated decision.
var PermuteMaps = false

// OrderedMaps says whether rewritten map loops are in force: only under the scheduler, and not in
// race builds (there the original loop runs, so that the detector sees the map read in the
// program's own frame).
//
//go:norace
func OrderedMaps() bool { return s_ != nil && !RaceBuild }

// RegChan gives a channel made by instrumented code an identity: its creation rank in this execution.
//
//go:norace
func RegChan(c interface{}) interface{} {
	s := s_
	if s == nil {
		return c
	}
	if s.chanIDs == nil {
		s.chanIDs = map[unsafe.Pointer]int{}
	}
	p := chanPtr(c)
	if _, ok := s.chanIDs[p]; !ok {
		s.chanIDs[p] = len(s.chanIDs) + 1
	}
	return c
}

//go:norace
func chanPtr(c interface{}) unsafe.Pointer {
	return unsafe.Pointer(reflect.ValueOf(c).Pointer())
}

// MapKeys returns the keys of m in canonical (or, with PermuteMaps, chosen) order.
//
//go:norace
func MapKeys(m interface{}) []interface{} {
	v := reflect.ValueOf(m)
	keys := v.MapKeys()
	s := s_
	ordered := true
	if len(keys) > 1 {
		switch v.Type().Key().Kind() {
		case reflect.String:
			sort.Slice(keys, func(i, j int) bool { return keys[i].String() < keys[j].String() })
		case reflect.Int, reflect.Int8, reflect.Int16, reflect.Int32, reflect.Int64:
			sort.Slice(keys, func(i, j int) bool { return keys[i].Int() < keys[j].Int() })
		case reflect.Uint, reflect.Uint8, reflect.Uint16, reflect.Uint32, reflect.Uint64, reflect.Uintptr:
			sort.Slice(keys, func(i, j int) bool { return keys[i].Uint() < keys[j].Uint() })
		case reflect.Chan:
			id := func(k reflect.Value) int {
				if s == nil || s.chanIDs == nil {
					return 0
				}
				return s.chanIDs[unsafe.Pointer(k.Pointer())]
			}
			for _, k := range keys {
				if id(k) == 0 {
					ordered = false
				}
			}
			sort.SliceStable(keys, func(i, j int) bool { return id(keys[i]) < id(keys[j]) })
		default:
			ordered = false
		}
	}
	if ordered && PermuteMaps && s != nil && len(keys) > 1 && len(keys) <= 3 {
		perms := permutationsOf(len(keys))
		p := perms[Choose(len(perms))]
		out := make([]reflect.Value, len(keys))
		for i, j := range p {
			out[i] = keys[j]
		}
		keys = out
	}
	res := make([]interface{}, len(keys))
	for i, k := range keys {
		res[i] = k.Interface()
	}
	return res
}

func permutationsOf(n int) [][]int {
	if n == 2 {
		return [][]int{{0, 1}, {1, 0}}
	}
	return [][]int{{0, 1, 2}, {0, 2, 1}, {1, 0, 2}, {1, 2, 0}, {2, 0, 1}, {2, 1, 0}}
}
