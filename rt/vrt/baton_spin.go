//go:build race

package vrt

import "runtime"

// Spin baton for race-detector builds: a parked thread spins on a plain word, yielding the only
// processor (GOMAXPROCS=1).  Plain accesses in functions marked norace create no happens-before
// edge in ThreadSanitizer's view, so the detector keeps judging the program by its own
// synchronisation only, while the scheduler serialises the threads.

//go:norace
//go:noinline
func park(t *Thread) {
	for t.turn == 0 {
		runtime.Gosched()
	}
	t.turn = 0
}

//go:norace
//go:noinline
func unpark(t *Thread) { t.turn = 1 }

// RaceBuild reports whether the binary was built with the race detector.
const RaceBuild = true
