#!/bin/bash
# Like seedcheck.sh but runs the check against a scratch worktree (VERIF_REPO), leaving /repo alone.
# usage: seedcheck_wt.sh <seeded-dir> <worktree> [tier] [budget_s]
set -uo pipefail
D=$(realpath "$1"); W=$2; TIER=${3:-quick}; BUDGET=${4:-120}
PROP=$(python3 -c "import json;print(json.load(open('$D/meta.json'))['property'])")
cd "$W" && git checkout -q -- . && git apply "$D/patch.diff" || { echo "patch does not apply"; exit 2; }
cd /verif
OUT=$(VERIF_REPO=$W VERIF_BUDGET_S=$BUDGET timeout $((BUDGET+300)) ./run "$PROP" "$TIER" 2>&1); RC=$?
git -C "$W" checkout -q -- .
echo "$OUT" | grep -E "^C[0-9]+ |VIOLATION|signature|ERROR|failed" | cut -c1-200 | head -8
echo "exit=$RC"
