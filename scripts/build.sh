#!/bin/bash
# Build (once per tree state) the instrumented binary that contains every harness.
# usage: build.sh [race]   → prints the path of the binary on stdout
set -euo pipefail
export GOFLAGS=-mod=mod GOPROXY=off GOSUMDB=off GOTOOLCHAIN=local
VERIF=${VERIF_ROOT:-/verif}
REPO=${VERIF_REPO:-/repo}
VARIANT=${1:-plain}
BROOT=$VERIF/.build
mkdir -p "$BROOT"
# hash of everything that goes into the binary
H=$( { cd "$REPO" && find pkg cmd go.mod go.sum -type f \( -name '*.go' -o -name 'go.mod' -o -name 'go.sum' \) -print0 | sort -z | xargs -0 sha256sum; \
       cd "$VERIF" && find rt h inject tools -type f -name '*.go' -print0 | sort -z | xargs -0 sha256sum; echo "$REPO"; go version; } | sha256sum | cut -c1-16)
OUT=$BROOT/$H
BIN=$OUT/vcheck.$VARIANT
exec 9>"$BROOT/lock"
flock 9
if [ ! -x "$BIN" ]; then
  mkdir -p "$OUT"
  if [ ! -f "$OUT/overlay.json" ]; then
    ( cd "$VERIF/tools" && go build -o "$BROOT/instr" ./instr && go build -o "$BROOT/genfacade" ./genfacade ) >&2
    mkdir -p "$OUT/gen/vtime" "$OUT/gen/vctx"
    "$BROOT/genfacade" time vtime "$OUT/gen/vtime/facade_gen.go" Now,Since,Until,Sleep,After,AfterFunc,NewTimer,NewTicker,Tick,Timer,Ticker >&2
    "$BROOT/genfacade" context vctx "$OUT/gen/vctx/facade_gen.go" WithCancel,WithDeadline,WithTimeout >&2
    "$BROOT/instr" -repo "$REPO" -verif "$VERIF" -out "$OUT" >&2 || { echo "instrumentation failed" >&2; rm -f "$OUT/overlay.json"; exit 2; }
  fi
  RACE=""
  if [ "$VARIANT" = race ]; then RACE="-race"; fi
  ( cd "$REPO" && go build $RACE -tags verif -modfile="$OUT/go.mod" -overlay="$OUT/overlay.json" -o "$BIN.tmp" ./zz_verif/h/cmd/vcheck ) >&2 || { echo "build failed" >&2; exit 2; }
  mv "$BIN.tmp" "$BIN"
  # keep only the three most recent build directories
  ls -1dt "$BROOT"/*/ 2>/dev/null | tail -n +4 | xargs -r rm -rf
fi
echo "$BIN"
