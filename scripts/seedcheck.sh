#!/bin/bash
# Apply a seeded change to /repo, run the property's check, revert.   usage: seedcheck.sh <seeded-dir> [tier] [budget_s]
set -uo pipefail
D=$(realpath "$1"); TIER=${2:-quick}; BUDGET=${3:-120}
PROP=$(python3 -c "import json;print(json.load(open('$D/meta.json'))['property'])")
cd /repo
if [ -n "$(git status --porcelain)" ]; then echo "/repo is not clean" >&2; exit 2; fi
git apply "$D/patch.diff" || { echo "patch does not apply" >&2; exit 2; }
cd /verif
OUT=$(VERIF_BUDGET_S=$BUDGET timeout $((BUDGET+240)) ./run "$PROP" "$TIER" 2>&1); RC=$?
git -C /repo checkout -- . 
echo "$OUT" | grep -E "^C[0-9]+ |VIOLATION|signature|KNOWN|ERROR|failed" | cut -c1-220 | head -12
echo "exit=$RC"
