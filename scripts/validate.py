#!/usr/bin/env python3
import json, glob, sys
import jsonschema
m=json.load(open('/verif/MANIFEST.json'))
jsonschema.validate(m, json.load(open('/root/.vp/MANIFEST.schema.json')))
s=json.load(open('/root/.vp/EVIDENCE.schema.json'))
for f in sorted(glob.glob('/verif/evidence/*.json')):
    jsonschema.validate(json.load(open(f)), s); print('ok', f)
print('manifest ok; claimed', [c['property_id'] for c in m['checks']])
