#!/bin/bash
# Regression over every kept seeded change: each is applied to a scratch worktree of /repo and the property's
# quick check is run against it (VERIF_REPO); /repo is not touched.  usage: seedcheck_all.sh [budget_s]
# (the evidence files written by these runs describe changed trees: re-run the checks on /repo afterwards)
cd /verif
W=/tmp/verif-seed-wt
git -C /repo worktree remove --force $W 2>/dev/null
git -C /repo worktree add -q --detach $W HEAD || exit 2
for D in seeded/*/; do
  N=$(basename $D)
  OUT=$(./scripts/seedcheck_wt.sh $D $W quick ${1:-170} 2>&1)
  RC=$(echo "$OUT" | grep -o "exit=[0-9]*" | tail -1)
  echo "$N: $RC violations=$(echo "$OUT" | grep -c '^VIOLATION') $(echo "$OUT" | grep -m1 signature | cut -c1-120)"
done
git -C /repo worktree remove --force $W
