#!/usr/bin/env python3
"""Regenerates MANIFEST.json from the table below (keeps it valid at all times)."""
import json, os
ROOT = os.path.dirname(os.path.dirname(os.path.abspath(__file__)))

BASE_NOTE = ("Trusted: the shims implement the semantics of the Go primitives they replace; code between two "
             "scheduling points is atomic (data-race freedom, C19); un-instrumented components (badger, tikv mock, "
             "net/http, protobuf) are linearizable and an engine call is one atomic step; bounds as stated in the evidence.")

CHECKS = {
 "C01": dict(cat="model_checking", tech="stateless model checking of the real code: preemption-bounded DFS over all schedules (own cooperative scheduler), exact-timeline chain oracle",
   text="Every schedule up to the stated preemption bound of 2-3 concurrent clients x 4 initial key states x all pairs of 9 request kinds is executed on the real backend (memkv; badger and tikv-mock at engine-call granularity); each execution is checked against the per-key chain specification using the exact commit step of every success, plus a storage scan.",
   ref="4/C01"),
 "C02": dict(cat="model_checking", tech="stateless model checking of the real code: preemption-bounded DFS over all schedules; stamps observed at the engine and notification seams",
   text="Every schedule up to the bound of writers on shared and distinct keys plus a reader at 5 kinds of read revision; uniqueness of stamps, real-time order, per-key monotonicity and header>=data are checked on every execution.",
   ref="4/C02"),
 "C04": dict(cat="model_checking", tech="stateless model checking of the real code (schedules, step monitor) + exhaustive fault placement over request sequences, exact quiescence detection",
   text="Safety is a monitor evaluated after every scheduling step of every explored schedule; liveness is decided exactly at scheduler-detected quiescence for every request sequence of length 1-2 over 9 outcome classes x every engine fault kind on every commit.",
   ref="4/C04"),
 "C03": dict(cat="model_checking", tech="explicit-state BFS over write histories on the real backend with a versioned-map reference model; every read at every revision compared after every transition; plus preemption-bounded schedule exploration of concurrent range reads with different limits, a count and a writer",
   text="All histories up to the stated depth over a 10-operation-per-key alphabet on prefix-related key sets (states de-duplicated on the rank-normalised model), each transition executed on a fresh real backend; every point/range/limited/count read at every revision is compared with the model and with the previous answer. Concurrent reads: every schedule (bound 1 quick / 2 thorough) of 2-3 Lists of one range with different limits, a Count and a writer inside the range; each answer must equal the snapshot at its own header revision.",
   ref="4/C03"),
 "C07": dict(cat="fault_enumeration", tech="explicit-state BFS over write+compaction histories with exhaustive placement of deletion faults / compactor death, plus preemption-bounded schedule exploration of compactor vs writers vs reader",
   text="Every compaction of every explored history is also run with each of its first 5 deletions failing (2 error kinds) and with the compactor dying after i deletions; reads at or above the floor, later writes and out-of-range records are compared with the model after every step; a compactor thread is explored against writers/readers under all schedules up to the bound.",
   ref="4/C07"),
 "C08": dict(cat="model_checking", tech="explicit-state BFS over write/compaction request sequences on the real backend; floor oracle at every revision after every step, through the compacting node and a second reading node; plus preemption-bounded schedule exploration of a compaction against range reads below its revision and of two overlapping compactions",
   text="All sequences up to the stated depth of writes and compaction requests (zero, every revision, above current; hence every increasing/decreasing/repeated order), de-duplicated on model+storage state; after every step List, limited List and streamed range at every revision must be refused below the floor and served above, and the stored record must equal the floor.",
   ref="4/C08"),
 "C10": dict(cat="exploration", tech="bounded-exhaustive input enumeration of the pure encoding functions (all keys up to length 4 over a 6-7 byte alphabet x 9 revisions; all pairs, all triples) and of the production compaction intervals for 8 node configurations against every record",
   text="The space of keys/revisions/bounds is finite and enumerated completely: round trip, order for all pairs, range and prefix bounds for all triples.",
   ref="4/C10", note="Trusted: bytes between the sampled alphabet bytes behave like their neighbours (the functions only copy and compare bytes)."),
 "C11": dict(cat="model_checking", tech="explicit-state search of each storage adapter against a sorted-map reference model (27 states x all batches x all iterator shapes)",
   text="From each of the 27 states every single-operation and ordered two-operation batch (thorough: every ordered three-operation batch as well), Get/Del/DelCurrent (fresh and stale iterator) and every iterator shape (both directions, limits 0-2, bounds on, between, outside and proper prefixes of stored keys, with and without a stored key that extends another) is executed on memkv, badger, tikv-mock and each behind the metrics wrapper; result class and full contents are compared with the model after every transition.",
   ref="4/C11"),
 "C12": dict(cat="model_checking", tech="explicit-state BFS over sequential request histories, each executed on four engines; pairwise transcript comparison (differential oracle); the alphabet includes a compaction with a client write injected at its first deletion",
   text="Every history up to the stated depth over a 15-operation alphabet is executed on memkv, badger, tikv-mock and metrics(badger); success flags, relative revisions, failure-branch values, reads at every revision and watch events must agree.",
   ref="4/C12"),
 "C05": dict(cat="model_checking", tech="stateless model checking of the real code: preemption-bounded DFS with happens-before state cache over watcher / writers / sequencer / hub / filter goroutines; gap-free-prefix oracle against ground truth",
   text="Every schedule up to the bound of one watcher (3 consumer speeds), 1-2 writers and the real background goroutines, over event-cache sizes incl. wrap-around, 0-4 pre-window events and 7 start revisions, with capacities shrunk so that overflow is reachable; the received sequence must be a gap-free, duplicate-free prefix of the ground-truth event list.",
   ref="4/C05"),
 "C06": dict(cat="model_checking", tech="stateless model checking of the real code: preemption-bounded DFS with state cache over list-then-watch reader vs writers vs compactor; reconstruction oracle",
   text="Every schedule up to the bound of a reader (List at R, Watch from R+1), 1-2 writers and optionally a compactor; for every received event revision and the final committed revision, List at that revision must equal the first list with the events applied.",
   ref="4/C06"),
 "C13": dict(cat="model_checking", tech="explicit-state BFS over write histories x exhaustive enumeration of partition border subsets and orders injected under the real scanner; four read paths compared with the unpartitioned snapshot; plus preemption-bounded schedule exploration of the partition workers of one read over two partitions",
   text="In every state of the history BFS every single border and every pair (thorough: also triples, and real region splits of the tikv mock cluster) of borders from stored and well-formed internal keys, reported in every order, is installed; List, Count, whole-interval stream and the concatenation of per-advertised-partition streams at every revision are compared with the model; batch revisions and terminators are checked.",
   ref="4/C13"),
 "C09": dict(cat="fault_enumeration", tech="exhaustive enumeration of unknown-outcome fault placements, variants, continuations, clock scripts and repair-commit fates on the real backend with the real sequencer and retry loop under a virtual clock; plus preemption-bounded DFS over the schedules of the retry loop against a concurrent writer on the same key",
   text="Every (history, faulted write, first or second commit of it, applied/not applied, continuation up to 2-3 steps incl. compaction and the retry interval elapsing, fate of the repair commit) combination is executed; the client must get an error, the read revision must keep up, compaction must stay below the unresolved revision, and after the repair ran the store must equal snapshot + delivered events with every acknowledged write delivered and durable, every key readable and conditionally writable at the revision the events end at. The retry loop is also explored under every schedule (bound 1 quick / 2 thorough) against a client writing the same key and a compaction request.",
   ref="4/C09"),
 "C14": dict(cat="model_checking", tech="stateless model checking of the real resource lock: all schedules at engine-call granularity (unbounded for 2 candidates x 1 round) with state cache; oracle on the recorded engine trace",
   text="Every interleaving of the get/create/update steps of 2-3 candidates over one store, from an absent and from a held record, on memkv, badger and tikv-mock; at most one create takes effect and every effective update was conditioned on exactly the previously stored bytes.",
   ref="4/C14"),
 "C15": dict(cat="fault_enumeration", tech="exhaustive enumeration of old-leader histories with a stop (crash) after every prefix, followed by a take-over through the real lock and the production OnStartedLeading code; storage scan oracle; plus explicit-state BFS over histories of the real revision allocator alone (deal, commit, take-over with revisions outstanding)",
   text="Every old-leader history up to depth 3-4 over a 10-operation alphabet (incl. 1/10/100 failed writes and lock renewals) on memkv, badger and tikv-mock with a fresh database each, the new leader being either a node started afterwards or a standby that polled the lock and served follower reads during the old term; the new leader's first revisions must exceed every stored revision, guarded writes must work and List must be complete.",
   ref="4/C15"),
 "C16": dict(cat="model_checking", tech="explicit-state BFS over Kubernetes-shaped transaction histories through the real etcd RPC server against an etcd reference model, plus exhaustive enumeration of a transaction grammar (~21 000 shapes x 3 store states); plus preemption-bounded schedule exploration of a watch opened at a past revision against concurrent updates",
   text="Every history up to the stated depth of the four Kubernetes shapes on 3 prefix-related keys is executed through RPCServer.Txn/Range/Watch and compared field by field with etcd semantics; every shape of the grammar must either be one of the four shapes on one key or be rejected with an error and leave the store byte-identical.",
   ref="4/C16"),
 "C17": dict(cat="model_checking", tech="exhaustive enumeration of histories mixing Event / non-Event / look-alike keys, compactions and virtual-clock advances around the TTL, on engines with and without native TTL; versioned-map model with an 'may be wholly gone after TTL' rule; plus preemption-bounded schedule exploration of expiry against a writer of the Event",
   text="Every history up to the stated depth over 16 operations; after every step every key is compared with the model: non-Event keys never change, an Event may read absent only when its newest change is at least TTL old, and then wholly. Schedules: the compaction that expires an old Event against a client updating it or deleting and re-creating it; afterwards point read, range read, stored records and a guarded write agree.",
   ref="4/C17"),
 "C18": dict(cat="model_checking", tech="exhaustive execution of the request x role x proxy x leader-reachability matrix through the real servers and the real revision syncer (recording backend), plus preemption-bounded schedule exploration of the real syncer / single-flight group",
   text="All 400 cells of the matrix are executed (25 request types of both APIs); a follower must never call a write or watch method of its backend, must adopt the leader's revision before any read and must fail the read when the revision cannot be obtained. Every schedule up to the bound of 2-3 follower reads against an advancing leader revision is explored on the real syncer.",
   ref="4/C18"),
 "C19": dict(cat="model_checking", tech="stateless model checking on a -race build: preemption-bounded DFS over all schedules with a ThreadSanitizer-invisible baton; the race detector is the per-execution oracle",
   text="Every schedule up to the bound of 10 concurrent workloads (writers, readers, watchers, compactors, retry loop) on the real backend over memkv is executed on a binary built with the race detector, whose view contains only the program's own happens-before edges; a report with both accesses in the node's code or its in-process engine is a violation.",
   ref="4/C19", note="Trusted: ThreadSanitizer (bounded history, reports once per stack pair per process); GOMAXPROCS=1 so that the plain-word baton is sound; scheduling points only at synchronisation operations."),
 "C20": dict(cat="exploration", tech="bounded-exhaustive input enumeration through the real handlers of both APIs with the real Prometheus client (all single requests of a value lattice, all ordered pairs of a reduced set), plus a static pass over all metric emission call sites",
   text="Every request of the lattice (incl. nil / empty / invalid-UTF-8 / NUL / long keys, negative and extreme revisions, unset sub-messages, unsupported shapes) is sent to a fresh node, singly and in every ordered pair of a reduced set; no panic, no process death, and a follow-up write must be committed and readable. All Emit* call sites are resolved to (name, kind, label names).",
   ref="4/C20"),
}

NOT_YET = {}
for i in range(1, 21):
    pid = "C%02d" % i
    if pid not in CHECKS:
        NOT_YET[pid] = "check under construction in this session (design in DESIGN.md section 4); not claimed until its harness is committed"

def main():
    checks = []
    for pid, c in sorted(CHECKS.items()):
        checks.append({
            "property_id": pid,
            "quick_cmd": "./run %s quick" % pid,
            "thorough_cmd": "./run %s thorough" % pid,
            "evidence_file": "/verif/evidence/%s.json" % pid,
            "replay_cmd_template": "./run replay {path}",
            "engine": "vcheck",
            "level_claimed": {"category": c["cat"], "text": c["text"], "design_ref": "DESIGN.md " + c["ref"]},
            "level_note": c.get("note", BASE_NOTE),
            "technique": c["tech"],
        })
    m = {
        "version": 1,
        "setup_cmd": "./run setup",
        "hooks": {
            "guard": "verif",
            "enable": "check-time: tools/instr rewrites the current /repo sources into an overlay (go build -tags verif -overlay ...; sync, sync/atomic, time, context imports redirected to scheduler shims; go/channel/select statements guarded) and adds the //go:build verif files under /verif/inject; nothing is committed to /repo",
            "baseline_off_cmd": "cd /repo && GOFLAGS=-mod=mod GOPROXY=off GOSUMDB=off GOTOOLCHAIN=local go test -vet=off -count=1 -timeout 25m ./...",
            "source_commits": [],
            "add_only": True,
        },
        "engines": [
            {"name": "vcheck", "path": "/verif/h/cmd/vcheck", "serves_properties": sorted(CHECKS.keys()),
             "kind_free_text": "hand-written stateless model checker for Go: AST instrumenter (tools/instr), cooperative scheduler with preemption-bounded DFS, spin/quiescence detection, virtual clock (rt/vrt), engine fault decorators and reference models (h/)"},
        ],
        "checks": checks,
        "not_applicable": [{"property_id": k, "reason": v} for k, v in sorted(NOT_YET.items())],
        "notes": "All checks share one instrumented binary built per tree state by scripts/build.sh (hash of /repo and /verif sources). VERIF_BUDGET_S overrides the tier wall-clock budget; an exhausted budget ends a run with exit 0 and exhaustive:false. known_findings.json lists fixed / known defects.",
    }
    with open(os.path.join(ROOT, "MANIFEST.json"), "w") as f:
        json.dump(m, f, indent=1)
        f.write("\n")

if __name__ == "__main__":
    main()
