#!/bin/bash
# Confirm a sub-agent's seeded change in its scratch worktree and keep it under /verif/seeded/<name>.
# usage: seedverify.sh <Cxx> <name>      (worktree /tmp/seed/<Cxx>, deliverables in _seed_out)
set -uo pipefail
export GOFLAGS=-mod=mod GOPROXY=off GOSUMDB=off GOTOOLCHAIN=local
P=$1; NAME=$2; W=/tmp/seed/$P; O=$W/_seed_out
[ -f "$O/patch.diff" ] || { echo "no patch"; exit 2; }
cd "$W"
# start from a clean source tree (keep _seed_out and demo files, which are untracked)
git checkout -q -- . 
DEMO=$(cat "$O/demo_cmd.txt" | grep -v '^#' | grep -m1 'go ')
echo "demo: $DEMO"
echo "== demo WITHOUT the change"; ( eval "$DEMO" ) > /tmp/seed/$P.demo0.log 2>&1; D0=$?; tail -3 /tmp/seed/$P.demo0.log
git apply "$O/patch.diff" || { echo "patch does not apply"; exit 2; }
echo "== build"; go build ./... || { echo BUILD-FAILS; exit 3; }
echo "== demo WITH the change"; ( eval "$DEMO" ) > /tmp/seed/$P.demo1.log 2>&1; D1=$?; tail -3 /tmp/seed/$P.demo1.log
echo "== repository tests with the change (the author's demonstration files moved aside)"
mkdir -p /tmp/seed/$P.aside; git status --porcelain | grep '^??' | awk '{print $2}' | grep -v '^_seed_out/$' | while read f; do mkdir -p "/tmp/seed/$P.aside/$(dirname $f)"; mv "$f" "/tmp/seed/$P.aside/$f"; done
go test -vet=off -count=1 ./pkg/... 2>&1 | grep -E "^(ok|FAIL|---)" > /tmp/seed/$P.tests.log
# pkg/util TestGetHost fails on the unchanged tree too (it is in the baseline's always-fail list)
grep -E "^FAIL[[:space:]]+github" /tmp/seed/$P.tests.log | grep -v "kubebrain/pkg/util" | head
TESTS_OK=1; grep -E "^FAIL[[:space:]]+github" /tmp/seed/$P.tests.log | grep -qv "kubebrain/pkg/util" && TESTS_OK=0
( cd /tmp/seed/$P.aside && find . -type f | while read f; do mkdir -p "$W/$(dirname $f)"; mv "$f" "$W/$f"; done ); rm -rf /tmp/seed/$P.aside
echo "demo without=$D0 (want 0)  demo with=$D1 (want !=0)  tests_ok=$TESTS_OK"
if [ $D0 -eq 0 ] && [ $D1 -ne 0 ] && [ $TESTS_OK -eq 1 ]; then
  S=/verif/seeded/$NAME; mkdir -p $S/demo
  cp "$O/patch.diff" $S/patch.diff
  cp "$O/demo_cmd.txt" $S/demo/ 2>/dev/null
  cp "$O/notes.md" $S/notes.md 2>/dev/null
  # demonstration files: everything untracked that the agent added (tests, helper programs), except _seed_out itself
  git status --porcelain | grep '^??' | awk '{print $2}' | grep -v '^_seed_out/$' | while read f; do mkdir -p "$S/demo/$(dirname $f)"; cp -r "$f" "$S/demo/$f"; done
  [ -d "$O/demo" ] && cp -r "$O/demo" "$S/demo/_seed_out_demo"
  echo CONFIRMED $S
else
  echo NOT-CONFIRMED
fi
git checkout -q -- .
