//go:build verif

package tso

import "sync/atomic"

// VerifPeeker gives the verification harness an unscheduled view of the counters.
type VerifPeeker interface {
	VerifPeek() (committed, issued uint64)
}

func (n *naiveTSO) VerifPeek() (committed, issued uint64) {
	return atomic.LoadUint64(&n.committedRevision), atomic.LoadUint64(&n.dealRevision)
}
