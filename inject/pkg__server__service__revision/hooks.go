//go:build verif

package revision

import "net/http"

// VerifSetRoundTripper replaces the transport of the syncer's HTTP client (verification harness only):
// the round trip then runs in the calling thread, where the scheduler sees what it reads.
func VerifSetRoundTripper(rs RevisionSyncer, rt http.RoundTripper) {
	rs.(*revisionSyncer).httpClient.Transport = rt
}
