//go:build verif

package scanner

// VerifSetRangeStreamBatch sets the (otherwise compile-time) stream batch size.
func VerifSetRangeStreamBatch(n int) { rangeStreamBatch = n }
