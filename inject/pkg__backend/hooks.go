//go:build verif

package backend

import (
	"time"

	"github.com/kubewharf/kubebrain/pkg/backend/coder"
	"github.com/kubewharf/kubebrain/pkg/backend/tso"
)

// Hooks added (through the build overlay only) for the verification harness.

// VerifSetIntervals sets the retry / check intervals of backends created afterwards.
func VerifSetIntervals(retry, check time.Duration) { retryInterval, checkInterval = retry, check }

// VerifSetEventsTTL sets the TTL (seconds) used for Event keys by backends created afterwards.
func VerifSetEventsTTL(seconds int64) { eventsTTL = seconds }

// VerifSetCapacities sets the (otherwise compile-time) channel capacities.
func VerifSetCapacities(batch, watchBuf, resultLen int) {
	eventBatchSize, watchBuffer, resultChanLength = batch, watchBuf, resultLen
}

// VerifCapacities reports the current capacities.
func VerifCapacities() (batch, watchBuf, resultLen, ring int) {
	return eventBatchSize, watchBuffer, resultChanLength, watchersChanCapacity
}

// VerifPeek reads the committed and the issued revision without scheduling points.
func VerifPeek(b Backend) (committed, issued uint64) {
	return b.(*backend).tso.(tso.VerifPeeker).VerifPeek()
}

// VerifRetryQueueLen is the length of the unknown-outcome retry queue.
func VerifRetryQueueLen(b Backend) int { return b.(*backend).asyncFifoRetry.Size() }

// VerifCompactBorders returns the internal intervals a compaction scans for a node configured with
// the given prefix and skipped prefixes (pairs start, end), computed by the production function.
func VerifCompactBorders(prefix string, skipped []string) [][]byte {
	b := &backend{config: Config{Prefix: prefix, SkippedPrefixes: skipped}, coder: coder.NewNormalCoder()}
	return b.getCompactBorders()
}
