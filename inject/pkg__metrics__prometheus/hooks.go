//go:build verif

package prometheus

import "github.com/prometheus/client_golang/prometheus"

// VerifResetRegistry gives the wrapper a fresh registry (verification harness: one per execution).
func VerifResetRegistry() {
	reg := prometheus.NewRegistry()
	registerer = reg
	gather = reg
}
