// instr rewrites the kubebrain packages that matter into scheduler-controlled copies and writes a
// `go build -overlay` map.  /repo is only read.  Unsupported constructs abort with exit status 2.
//
// usage: instr -repo /repo -verif /verif -out <builddir>
package main

import (
	"bytes"
	"encoding/json"
	"flag"
	"fmt"
	"go/ast"
	"go/format"
	"go/importer"
	"go/parser"
	"go/token"
	"go/types"
	"io"
	"os"
	"os/exec"
	"path/filepath"
	"reflect"
	"sort"
	"strconv"
	"strings"
)

const modPath = "github.com/kubewharf/kubebrain"
const rtPath = modPath + "/zz_verif/rt/"

// packages that are rewritten (relative to the module root)
var targets = []string{
	"pkg/backend", "pkg/backend/scanner", "pkg/backend/retry", "pkg/backend/tso", "pkg/backend/creator",
	"pkg/backend/election", "pkg/storage/memkv", "pkg/storage/metrics", "pkg/server/etcd",
	"pkg/server/brain", "pkg/server/service/revision", "pkg/server/service/leader",
}

var importMap = map[string]string{
	"sync":                           rtPath + "vsync",
	"sync/atomic":                    rtPath + "vatomic",
	"time":                           rtPath + "vtime",
	"context":                        rtPath + "vctx",
	"golang.org/x/sync/singleflight": rtPath + "vsingleflight",
}
var importName = map[string]string{
	"sync": "sync", "sync/atomic": "atomic", "time": "time", "context": "context",
	"golang.org/x/sync/singleflight": "singleflight",
}

type constOverride struct {
	val   string
	toVar bool
}

// compile-time capacities shrunk so that overflow / wrap-around / multi-batch paths are reachable by
// a handful of operations; the ones marked toVar can additionally be set per scenario.
var constOverrides = map[string]map[string]constOverride{
	"pkg/backend": {
		"watchersChanCapacity": {"100", false}, // like the production value (100000) not a power of two: index arithmetic keeps its character
		"historyCapacity":      {"64", false},
		"eventBatchSize":       {"300", true},
		"watchBuffer":          {"10000", true},
		"resultChanLength":     {"100", true},
	},
	"pkg/backend/scanner": {
		"rangeStreamBatch": {"300", true},
		"scanInitDelay":    {"1000", false}, // 1µs: the back-off of a failed scan sleeps in real time
	},
}

func fatal(format string, a ...interface{}) {
	fmt.Fprintf(os.Stderr, "instr: "+format+"\n", a...)
	os.Exit(2)
}

type listPkg struct {
	ImportPath string
	Dir        string
	Export     string
	GoFiles    []string
	ImportMap  map[string]string
	Standard   bool
}

func main() {
	repo := flag.String("repo", "/repo", "repository root")
	verif := flag.String("verif", "/verif", "verification root")
	out := flag.String("out", "", "build directory")
	flag.Parse()
	if *out == "" {
		fatal("-out required")
	}
	must(os.MkdirAll(*out, 0o755))
	// private copy of go.mod/go.sum so that the go command never writes into the repository
	copyFile(filepath.Join(*repo, "go.mod"), filepath.Join(*out, "go.mod"))
	copyFile(filepath.Join(*repo, "go.sum"), filepath.Join(*out, "go.sum"))

	// export data of everything the targets import
	args := []string{"list", "-modfile=" + filepath.Join(*out, "go.mod"), "-export", "-deps", "-json=ImportPath,Dir,Export,GoFiles,ImportMap,Standard"}
	for _, t := range targets {
		args = append(args, "./"+t)
	}
	args = append(args, "golang.org/x/sync/singleflight")
	cmd := exec.Command("go", args...)
	cmd.Dir = *repo
	cmd.Stderr = os.Stderr
	outb, err := cmd.Output()
	if err != nil {
		fatal("go list failed: %v", err)
	}
	pkgs := map[string]*listPkg{}
	dec := json.NewDecoder(bytes.NewReader(outb))
	for {
		var p listPkg
		if err := dec.Decode(&p); err == io.EOF {
			break
		} else if err != nil {
			fatal("go list output: %v", err)
		}
		pp := p
		pkgs[p.ImportPath] = &pp
	}

	overlay := map[string]string{}
	fset := token.NewFileSet()
	var notes []string
	for _, t := range append(append([]string{}, targets...), "@golang.org/x/sync/singleflight") {
		lp := pkgs[modPath+"/"+t]
		external := strings.HasPrefix(t, "@")
		if external {
			lp = pkgs[t[1:]]
		}
		if lp == nil {
			fatal("package %s not found", t)
		}
		imp := importer.ForCompiler(fset, "gc", func(path string) (io.ReadCloser, error) {
			if m, ok := lp.ImportMap[path]; ok {
				path = m
			}
			d := pkgs[path]
			if d == nil || d.Export == "" {
				return nil, fmt.Errorf("no export data for %s", path)
			}
			return os.Open(d.Export)
		})
		var files []*ast.File
		for _, f := range lp.GoFiles {
			af, err := parser.ParseFile(fset, filepath.Join(lp.Dir, f), nil, parser.ParseComments)
			if err != nil {
				fatal("parse: %v", err)
			}
			files = append(files, af)
		}
		info := &types.Info{Types: map[ast.Expr]types.TypeAndValue{}, Uses: map[*ast.Ident]types.Object{}, Defs: map[*ast.Ident]types.Object{}}
		conf := types.Config{Importer: imp, Error: func(err error) {}}
		tpkg, err := conf.Check(lp.ImportPath, fset, files, info)
		if err != nil {
			fatal("type check of %s failed: %v", t, err)
		}
		for i, af := range files {
			r := &rewriter{fset: fset, info: info, pkg: t, file: lp.GoFiles[i], af: af, tpkg: tpkg}
			r.rewriteFile(af)
			if len(r.errs) > 0 {
				for _, e := range r.errs {
					fmt.Fprintln(os.Stderr, "instr: unsupported:", e)
				}
				os.Exit(2)
			}
			notes = append(notes, r.notes...)
			var buf bytes.Buffer
			if err := format.Node(&buf, fset, af); err != nil {
				fatal("print %s/%s: %v", t, lp.GoFiles[i], err)
			}
			dst := filepath.Join(*out, "src", t, lp.GoFiles[i])
			key := filepath.Join(*repo, t, lp.GoFiles[i])
			if external {
				dst = filepath.Join(*out, "gen", "vsingleflight", lp.GoFiles[i])
				key = filepath.Join(*repo, "zz_verif", "rt", "vsingleflight", lp.GoFiles[i])
			}
			must(os.MkdirAll(filepath.Dir(dst), 0o755))
			must(os.WriteFile(dst, buf.Bytes(), 0o644))
			overlay[key] = dst
		}
		// report overrides that found nothing to override
		for name := range constOverrides[t] {
			found := false
			for _, n := range notes {
				if n == "override "+t+"."+name {
					found = true
				}
			}
			if !found {
				notes = append(notes, "override-missing "+t+"."+name)
			}
		}
	}

	// virtual packages: runtime and harness
	for _, d := range []string{"rt", "h"} {
		root := filepath.Join(*verif, d)
		filepath.Walk(root, func(p string, fi os.FileInfo, err error) error {
			if err != nil || fi.IsDir() || !strings.HasSuffix(p, ".go") {
				return nil
			}
			rel, _ := filepath.Rel(*verif, p)
			overlay[filepath.Join(*repo, "zz_verif", rel)] = p
			return nil
		})
	}
	// generated facades and the singleflight copy
	gen := filepath.Join(*out, "gen")
	for _, g := range [][2]string{{"vtime", "facade_gen.go"}, {"vctx", "facade_gen.go"}} {
		p := filepath.Join(gen, g[0], g[1])
		if _, err := os.Stat(p); err == nil {
			overlay[filepath.Join(*repo, "zz_verif", "rt", g[0], g[1])] = p
		}
	}
	// injected files: /verif/inject/<pkg path with / replaced by __>/<file>.go
	inj := filepath.Join(*verif, "inject")
	ents, _ := os.ReadDir(inj)
	for _, e := range ents {
		if !e.IsDir() {
			continue
		}
		pkgDir := strings.ReplaceAll(e.Name(), "__", "/")
		fs, _ := os.ReadDir(filepath.Join(inj, e.Name()))
		for _, f := range fs {
			if strings.HasSuffix(f.Name(), ".go") {
				overlay[filepath.Join(*repo, pkgDir, "zz_verif_"+f.Name())] = filepath.Join(inj, e.Name(), f.Name())
			}
		}
	}
	ob, _ := json.MarshalIndent(map[string]interface{}{"Replace": overlay}, "", " ")
	must(os.WriteFile(filepath.Join(*out, "overlay.json"), ob, 0o644))
	sort.Strings(notes)
	nb, _ := json.MarshalIndent(notes, "", " ")
	must(os.WriteFile(filepath.Join(*out, "instr_notes.json"), nb, 0o644))
}

func must(err error) {
	if err != nil {
		fatal("%v", err)
	}
}

func copyFile(src, dst string) {
	b, err := os.ReadFile(src)
	must(err)
	must(os.WriteFile(dst, b, 0o644))
}

// ---------------------------------------------------------------------------------------------

type rewriter struct {
	fset  *token.FileSet
	info  *types.Info
	pkg   string
	file  string
	n     int
	errs  []string
	notes []string
	used  bool
	af    *ast.File
	tpkg  *types.Package
}

func (r *rewriter) errorf(n ast.Node, format string, a ...interface{}) {
	r.errs = append(r.errs, fmt.Sprintf("%s: %s", r.fset.Position(n.Pos()), fmt.Sprintf(format, a...)))
}

func (r *rewriter) tmp(prefix string) *ast.Ident {
	r.n++
	return ast.NewIdent(fmt.Sprintf("vrt%s%d", prefix, r.n))
}

func vrtCall(name string, args ...ast.Expr) *ast.CallExpr {
	return &ast.CallExpr{Fun: &ast.SelectorExpr{X: ast.NewIdent("vrt"), Sel: ast.NewIdent(name)}, Args: args}
}

func exprStmt(e ast.Expr) ast.Stmt { return &ast.ExprStmt{X: e} }

func define(lhs *ast.Ident, rhs ast.Expr) ast.Stmt {
	return &ast.AssignStmt{Lhs: []ast.Expr{lhs}, Tok: token.DEFINE, Rhs: []ast.Expr{rhs}}
}

func (r *rewriter) rewriteFile(f *ast.File) {
	// keep only the comments before the package clause (build constraints, licence)
	var keep []*ast.CommentGroup
	for _, cg := range f.Comments {
		if cg.End() < f.Package {
			keep = append(keep, cg)
		}
	}
	f.Comments = keep
	f.Doc = nil

	// imports
	for _, im := range f.Imports {
		p, _ := strconv.Unquote(im.Path.Value)
		if np, ok := importMap[p]; ok {
			if im.Name == nil {
				im.Name = ast.NewIdent(importName[p])
			}
			im.Path.Value = strconv.Quote(np)
			im.Path.ValuePos = token.NoPos
			im.EndPos = token.NoPos
		}
	}

	// constants
	if ov := constOverrides[r.pkg]; ov != nil {
		var decls []ast.Decl
		for _, d := range f.Decls {
			gd, ok := d.(*ast.GenDecl)
			if !ok || gd.Tok != token.CONST {
				decls = append(decls, d)
				continue
			}
			var keepSpecs []ast.Spec
			for _, sp := range gd.Specs {
				vs := sp.(*ast.ValueSpec)
				if len(vs.Names) != 1 || len(vs.Values) != 1 {
					keepSpecs = append(keepSpecs, sp)
					continue
				}
				o, ok := ov[vs.Names[0].Name]
				if !ok {
					keepSpecs = append(keepSpecs, sp)
					continue
				}
				r.notes = append(r.notes, "override "+r.pkg+"."+vs.Names[0].Name)
				vs.Values[0] = &ast.BasicLit{Kind: token.INT, Value: o.val}
				vs.Doc, vs.Comment = nil, nil
				if o.toVar {
					decls = append(decls, &ast.GenDecl{Tok: token.VAR, Specs: []ast.Spec{vs}})
				} else {
					keepSpecs = append(keepSpecs, sp)
				}
			}
			if len(keepSpecs) > 0 {
				gd.Specs = keepSpecs
				decls = append(decls, gd)
			}
		}
		f.Decls = decls
	}

	// function bodies
	for _, d := range f.Decls {
		switch d := d.(type) {
		case *ast.FuncDecl:
			if d.Body != nil {
				d.Doc = nil
				r.body(d.Body)
			}
		case *ast.GenDecl:
			for _, sp := range d.Specs {
				if vs, ok := sp.(*ast.ValueSpec); ok {
					for _, v := range vs.Values {
						r.scanExpr(v, true)
					}
				}
			}
		}
	}
	if r.pkg == "pkg/server/service/leader" {
		r.liftOnStartedLeading(f)
	}
	if r.used {
		addImport(f, "vrt", rtPath+"vrt")
	}
}

// liftOnStartedLeading makes the production "become leader" code callable without client-go's
// real-time elector: the function literal given as LeaderCallbacks.OnStartedLeading inside a
// method is copied into a method VerifOnStartedLeading of the same receiver.
func (r *rewriter) liftOnStartedLeading(f *ast.File) {
	var add []ast.Decl
	for _, d := range f.Decls {
		fd, ok := d.(*ast.FuncDecl)
		if !ok || fd.Recv == nil || fd.Body == nil {
			continue
		}
		ast.Inspect(fd.Body, func(n ast.Node) bool {
			kv, ok := n.(*ast.KeyValueExpr)
			if !ok {
				return true
			}
			id, ok := kv.Key.(*ast.Ident)
			fl, ok2 := kv.Value.(*ast.FuncLit)
			if !ok || !ok2 || id.Name != "OnStartedLeading" {
				return true
			}
			c := r.clone(fl).(*ast.FuncLit)
			add = append(add, &ast.FuncDecl{Recv: fd.Recv, Name: ast.NewIdent("VerifOnStartedLeading"), Type: c.Type, Body: c.Body})
			r.notes = append(r.notes, "lifted OnStartedLeading from "+fd.Name.Name)
			return false
		})
	}
	f.Decls = append(f.Decls, add...)
}

func addImport(f *ast.File, name, path string) {
	spec := &ast.ImportSpec{Name: ast.NewIdent(name), Path: &ast.BasicLit{Kind: token.STRING, Value: strconv.Quote(path)}}
	gd := &ast.GenDecl{Tok: token.IMPORT, Specs: []ast.Spec{spec}}
	f.Decls = append([]ast.Decl{gd}, f.Decls...)
	f.Imports = append(f.Imports, spec)
}

func (r *rewriter) body(b *ast.BlockStmt) {
	if b != nil {
		b.List = r.block(b.List)
	}
}

func (r *rewriter) block(list []ast.Stmt) []ast.Stmt {
	var out []ast.Stmt
	for _, st := range list {
		out = append(out, r.stmt(st)...)
	}
	return out
}

// scanExpr rewrites function literals inside e and reports channel receives outside of them.
func (r *rewriter) scanExpr(e ast.Node, forbidRecv bool) (recvs []*ast.UnaryExpr) {
	if e == nil {
		return nil
	}
	ast.Inspect(e, func(n ast.Node) bool {
		switch n := n.(type) {
		case *ast.FuncLit:
			r.body(n.Body)
			return false
		case *ast.UnaryExpr:
			if n.Op == token.ARROW {
				recvs = append(recvs, n)
			}
		case *ast.CallExpr:
			if r.isBuiltin(n.Fun, "make") && len(n.Args) >= 1 {
				if _, isChan := r.typeOf(n).(*types.Chan); isChan {
					// make(T, n)  =>  func() T { c := make(T, n); vrt.RegChan(c); return c }()
					// (the channel gets a creation rank: map iteration over channel keys is ordered by it)
					r.used = true
					c := ast.NewIdent("vrtNewC")
					inner := &ast.CallExpr{Fun: ast.NewIdent("make"), Args: n.Args}
					typ := r.clone(n.Args[0]).(ast.Expr)
					n.Fun = &ast.FuncLit{
						Type: &ast.FuncType{Params: &ast.FieldList{}, Results: &ast.FieldList{List: []*ast.Field{{Type: typ}}}},
						Body: &ast.BlockStmt{List: []ast.Stmt{define(c, inner), exprStmt(vrtCall("RegChan", c)), &ast.ReturnStmt{Results: []ast.Expr{c}}}},
					}
					n.Args = nil
					return false
				}
			}
			if id, ok := n.Fun.(*ast.Ident); ok && (id.Name == "len" || id.Name == "cap") && len(n.Args) == 1 {
				if _, isChan := r.typeOf(n.Args[0]).(*types.Chan); isChan {
					r.errorf(n, "len/cap of a channel")
				}
			}
		}
		return true
	})
	if forbidRecv && len(recvs) > 0 {
		r.errorf(recvs[0], "channel receive inside an expression that is not rewritten")
	}
	return recvs
}

func (r *rewriter) typeOf(e ast.Expr) types.Type {
	if tv, ok := r.info.Types[e]; ok && tv.Type != nil {
		return tv.Type.Underlying()
	}
	return nil
}

func (r *rewriter) isConst(e ast.Expr) bool {
	if tv, ok := r.info.Types[e]; ok {
		if tv.Value != nil || tv.IsNil() {
			return true
		}
	}
	return false
}

func (r *rewriter) isBuiltin(e ast.Expr, name string) bool {
	id, ok := e.(*ast.Ident)
	if !ok || id.Name != name {
		return false
	}
	_, isB := r.info.Uses[id].(*types.Builtin)
	return isB
}

func (r *rewriter) stmt(st ast.Stmt) []ast.Stmt {
	switch s := st.(type) {
	case nil:
		return nil
	case *ast.BlockStmt:
		r.body(s)
	case *ast.IfStmt:
		r.ifStmt(s)
	case *ast.ForStmt:
		if s.Init != nil {
			r.scanExpr(s.Init, true)
		}
		r.scanExpr(s.Cond, true)
		if s.Post != nil {
			r.scanExpr(s.Post, true)
		}
		r.body(s.Body)
	case *ast.RangeStmt:
		if _, ok := r.typeOf(s.X).(*types.Chan); ok {
			return []ast.Stmt{r.rangeChan(s, nil)}
		}
		if mt, ok := r.typeOf(s.X).(*types.Map); ok {
			if st := r.rangeMap(s, mt, nil); st != nil {
				return []ast.Stmt{st}
			}
		}
		r.scanExpr(s.X, true)
		r.body(s.Body)
	case *ast.SwitchStmt:
		if s.Init != nil {
			r.scanExpr(s.Init, true)
		}
		r.scanExpr(s.Tag, true)
		for _, c := range s.Body.List {
			cc := c.(*ast.CaseClause)
			for _, e := range cc.List {
				r.scanExpr(e, true)
			}
			cc.Body = r.block(cc.Body)
		}
	case *ast.TypeSwitchStmt:
		if s.Init != nil {
			r.scanExpr(s.Init, true)
		}
		r.scanExpr(s.Assign, true)
		for _, c := range s.Body.List {
			cc := c.(*ast.CaseClause)
			cc.Body = r.block(cc.Body)
		}
	case *ast.SelectStmt:
		// pass-through copy (no scheduler installed): the original select with rewritten bodies
		orig := r.clone(s).(*ast.SelectStmt)
		for _, c := range orig.Body.List {
			cc := c.(*ast.CommClause)
			if cc.Comm != nil {
				r.scanExpr(cc.Comm, false)
			}
			cc.Body = r.block(cc.Body)
		}
		sched := r.selectStmt(s)
		return []ast.Stmt{&ast.IfStmt{Cond: vrtCall("Sched"), Body: &ast.BlockStmt{List: []ast.Stmt{sched}}, Else: &ast.BlockStmt{List: []ast.Stmt{orig}}}}
	case *ast.LabeledStmt:
		if rs, ok := s.Stmt.(*ast.RangeStmt); ok {
			if _, isChan := r.typeOf(rs.X).(*types.Chan); isChan {
				return []ast.Stmt{r.rangeChan(rs, s.Label)}
			}
			if mt, isMap := r.typeOf(rs.X).(*types.Map); isMap {
				if st := r.rangeMap(rs, mt, s); st != nil {
					return []ast.Stmt{st}
				}
				r.scanExpr(rs.X, true)
				r.body(rs.Body)
				return []ast.Stmt{s}
			}
		}
		if _, ok := s.Stmt.(*ast.SelectStmt); ok {
			r.errorf(s, "labeled select")
			return []ast.Stmt{s}
		}
		inner := r.stmt(s.Stmt)
		if len(inner) != 1 {
			r.errorf(s, "labeled statement that needs expansion")
			return []ast.Stmt{s}
		}
		s.Stmt = inner[0]
	case *ast.GoStmt:
		return []ast.Stmt{r.goStmt(s)}
	case *ast.SendStmt:
		r.scanExpr(s.Chan, true)
		r.scanExpr(s.Value, true)
		r.used = true
		c, v := r.tmp("C"), r.tmp("V")
		var list []ast.Stmt
		list = append(list, define(c, s.Chan))
		val := s.Value
		if !r.isConst(s.Value) {
			list = append(list, define(v, s.Value))
			val = v
		}
		list = append(list, exprStmt(vrtCall("Send", c)), &ast.SendStmt{Chan: c, Value: val}, exprStmt(vrtCall("Sent")))
		return []ast.Stmt{&ast.BlockStmt{List: list}}
	case *ast.DeferStmt:
		if r.isBuiltin(s.Call.Fun, "close") && len(s.Call.Args) == 1 {
			r.used = true
			c := r.tmp("C")
			fl := &ast.FuncLit{Type: &ast.FuncType{Params: &ast.FieldList{}}, Body: &ast.BlockStmt{List: []ast.Stmt{
				exprStmt(vrtCall("Close", c)),
				exprStmt(&ast.CallExpr{Fun: ast.NewIdent("close"), Args: []ast.Expr{c}}),
			}}}
			return []ast.Stmt{define(c, s.Call.Args[0]), &ast.DeferStmt{Call: &ast.CallExpr{Fun: fl}}}
		}
		r.scanExpr(s.Call, true)
	case *ast.ExprStmt:
		if ce, ok := s.X.(*ast.CallExpr); ok && r.isBuiltin(ce.Fun, "close") && len(ce.Args) == 1 {
			r.scanExpr(ce.Args[0], true)
			r.used = true
			c := r.tmp("C")
			orig := ce.Args[0]
			ce.Args[0] = c
			return []ast.Stmt{&ast.BlockStmt{List: []ast.Stmt{define(c, orig), exprStmt(vrtCall("Close", c)), s}}}
		}
		if ue, ok := s.X.(*ast.UnaryExpr); ok && ue.Op == token.ARROW {
			r.scanExpr(ue.X, true)
			r.used = true
			c := r.tmp("C")
			x := ue.X
			ue.X = c
			return []ast.Stmt{&ast.BlockStmt{List: []ast.Stmt{define(c, x), exprStmt(vrtCall("Recv", c)), s, exprStmt(vrtCall("Recvd"))}}}
		}
		r.scanExpr(s.X, true)
	case *ast.AssignStmt:
		if len(s.Rhs) == 1 {
			if ue, ok := s.Rhs[0].(*ast.UnaryExpr); ok && ue.Op == token.ARROW {
				r.scanExpr(ue.X, true)
				for _, l := range s.Lhs {
					r.scanExpr(l, true)
				}
				r.used = true
				c := r.tmp("C")
				x := ue.X
				ue.X = c
				return []ast.Stmt{define(c, x), exprStmt(vrtCall("Recv", c)), s, exprStmt(vrtCall("Recvd"))}
			}
		}
		for _, e := range s.Rhs {
			r.scanExpr(e, true)
		}
		for _, e := range s.Lhs {
			r.scanExpr(e, true)
		}
	case *ast.ReturnStmt, *ast.DeclStmt, *ast.IncDecStmt:
		r.scanExpr(s, true)
	case *ast.BranchStmt, *ast.EmptyStmt:
	default:
		r.errorf(st, "statement kind %T", st)
	}
	return []ast.Stmt{st}
}

// clone deep-copies an AST subtree and carries the type information over to the copy.
func (r *rewriter) clone(n ast.Node) ast.Node {
	v := r.cloneValue(reflect.ValueOf(n))
	c := v.Interface().(ast.Node)
	// labels are function-scoped: rename the ones defined inside the copy
	defined := map[string]bool{}
	ast.Inspect(c, func(n ast.Node) bool {
		if ls, ok := n.(*ast.LabeledStmt); ok {
			defined[ls.Label.Name] = true
		}
		return true
	})
	ast.Inspect(c, func(n ast.Node) bool {
		switch n := n.(type) {
		case *ast.LabeledStmt:
			n.Label.Name += "Pt"
		case *ast.BranchStmt:
			if n.Label != nil && defined[n.Label.Name] {
				n.Label.Name += "Pt"
			}
		}
		return true
	})
	return c
}

func (r *rewriter) cloneValue(v reflect.Value) reflect.Value {
	switch v.Kind() {
	case reflect.Ptr:
		if v.IsNil() {
			return v
		}
		switch v.Interface().(type) {
		case *ast.Object, *ast.Scope:
			return reflect.Zero(v.Type())
		}
		nv := reflect.New(v.Type().Elem())
		nv.Elem().Set(r.cloneValue(v.Elem()))
		if oe, ok := v.Interface().(ast.Expr); ok {
			ne := nv.Interface().(ast.Expr)
			if tv, ok := r.info.Types[oe]; ok {
				r.info.Types[ne] = tv
			}
			if oid, ok := oe.(*ast.Ident); ok {
				if o, ok := r.info.Uses[oid]; ok {
					r.info.Uses[ne.(*ast.Ident)] = o
				}
			}
		}
		return nv
	case reflect.Interface:
		if v.IsNil() {
			return v
		}
		nv := reflect.New(v.Type()).Elem()
		nv.Set(r.cloneValue(v.Elem()))
		return nv
	case reflect.Slice:
		if v.IsNil() {
			return v
		}
		nv := reflect.MakeSlice(v.Type(), v.Len(), v.Len())
		for i := 0; i < v.Len(); i++ {
			nv.Index(i).Set(r.cloneValue(v.Index(i)))
		}
		return nv
	case reflect.Struct:
		nv := reflect.New(v.Type()).Elem()
		for i := 0; i < v.NumField(); i++ {
			nv.Field(i).Set(r.cloneValue(v.Field(i)))
		}
		return nv
	default:
		return v
	}
}

func (r *rewriter) ifStmt(s *ast.IfStmt) {
	if s.Init != nil {
		r.scanExpr(s.Init, true)
	}
	r.scanExpr(s.Cond, true)
	r.body(s.Body)
	switch e := s.Else.(type) {
	case *ast.BlockStmt:
		r.body(e)
	case *ast.IfStmt:
		r.ifStmt(e)
	}
}

func (r *rewriter) goStmt(s *ast.GoStmt) ast.Stmt {
	r.used = true
	call := s.Call
	r.scanExpr(call.Fun, true)
	var list []ast.Stmt
	if id, ok := call.Fun.(*ast.Ident); ok {
		if _, isB := r.info.Uses[id].(*types.Builtin); isB {
			if id.Name == "panic" {
				return s // `go panic(e)`: crash propagation, left alone
			}
			r.errorf(s, "go with a builtin")
		}
	}
	if tv, ok := r.info.Types[call.Fun]; ok && tv.IsType() {
		r.errorf(s, "go with a conversion")
	}
	f := r.tmp("F")
	list = append(list, define(f, call.Fun))
	var args []ast.Expr
	for _, a := range call.Args {
		r.scanExpr(a, true)
		if r.isConst(a) {
			args = append(args, a)
			continue
		}
		t := r.tmp("A")
		list = append(list, define(t, a))
		args = append(args, t)
	}
	inner := &ast.CallExpr{Fun: f, Args: args}
	if call.Ellipsis.IsValid() {
		inner.Ellipsis = 1
	}
	fl := &ast.FuncLit{Type: &ast.FuncType{Params: &ast.FieldList{}}, Body: &ast.BlockStmt{List: []ast.Stmt{exprStmt(inner)}}}
	list = append(list, exprStmt(vrtCall("Go", fl)))
	return &ast.BlockStmt{List: list}
}

// typeExpr writes a type with the file's own import names (nil when a package it needs is not imported).
func (r *rewriter) typeExpr(t types.Type) ast.Expr {
	missing := false
	q := func(p *types.Package) string {
		if p.Path() == r.tpkg.Path() {
			return ""
		}
		for _, im := range r.af.Imports {
			ip, _ := strconv.Unquote(im.Path.Value)
			for orig, shim := range importMap {
				if ip == shim {
					ip = orig
				}
			}
			if ip == p.Path() {
				if im.Name != nil {
					return im.Name.Name
				}
				return p.Name()
			}
		}
		missing = true
		return p.Name()
	}
	e, err := parser.ParseExpr(types.TypeString(t, q))
	if err != nil || missing {
		return nil
	}
	return e
}

// rangeMap owns the iteration order of a map: under the scheduler (and outside race builds) the loop
// runs over vrt.MapKeys(m) - canonical order, or every order when the scenario asks for it; the
// original loop is kept for pass-through and race builds.  Returns nil when the loop is left alone.
func (r *rewriter) rangeMap(s *ast.RangeStmt, mt *types.Map, labeled *ast.LabeledStmt) ast.Stmt {
	if s.Tok != token.DEFINE {
		r.notes = append(r.notes, "map range left alone (assignment form) in "+r.pkg)
		return nil
	}
	switch k := mt.Key().Underlying().(type) {
	case *types.Basic:
		if k.Info()&(types.IsString|types.IsInteger) == 0 {
			return nil
		}
	case *types.Chan:
	default:
		r.notes = append(r.notes, "map range left alone (key type "+mt.Key().String()+") in "+r.pkg)
		return nil
	}
	kt := r.typeExpr(mt.Key())
	var vt ast.Expr
	if s.Value != nil {
		if id, isId := s.Value.(*ast.Ident); !isId || id.Name != "_" {
			vt = r.typeExpr(mt.Elem())
			if vt == nil {
				kt = nil
			}
		}
	}
	if kt == nil {
		r.notes = append(r.notes, "map range left alone (key or value type not expressible) in "+r.pkg)
		return nil
	}
	r.used = true
	r.scanExpr(s.X, true)
	// the copy keeps the original loop; a label on the loop is cloned with it (clone renames the label
	// and the branches that name it), the ordered loop keeps the original label
	var origStmt ast.Stmt
	var orig *ast.RangeStmt
	if labeled != nil {
		lc := r.clone(labeled).(*ast.LabeledStmt)
		orig, origStmt = lc.Stmt.(*ast.RangeStmt), lc
	} else {
		orig = r.clone(s).(*ast.RangeStmt)
		origStmt = orig
	}
	r.body(orig.Body)
	r.body(s.Body)
	m, ki, ok := r.tmp("M"), r.tmp("K"), r.tmp("Ok")
	key := s.Key
	if id, isId := key.(*ast.Ident); key == nil || (isId && id.Name == "_") {
		key = r.tmp("Key")
	}
	var val ast.Expr = ast.NewIdent("_")
	if s.Value != nil {
		val = s.Value
	}
	// the loop variables are declared once, before the loop, and assigned in every iteration: the module
	// says go 1.14, i.e. one variable per loop (a closure in the body sees the LAST key, not its own)
	varDecl := func(name ast.Expr, typ ast.Expr) ast.Stmt {
		return &ast.DeclStmt{Decl: &ast.GenDecl{Tok: token.VAR, Specs: []ast.Spec{&ast.ValueSpec{Names: []*ast.Ident{name.(*ast.Ident)}, Type: typ}}}}
	}
	decls := []ast.Stmt{varDecl(key, kt), varDecl(ok, ast.NewIdent("bool"))}
	if vt != nil {
		decls = append(decls, varDecl(val, vt))
	}
	body := []ast.Stmt{
		&ast.AssignStmt{Lhs: []ast.Expr{key}, Tok: token.ASSIGN, Rhs: []ast.Expr{&ast.TypeAssertExpr{X: ki, Type: kt}}},
		&ast.AssignStmt{Lhs: []ast.Expr{val, ok}, Tok: token.ASSIGN, Rhs: []ast.Expr{&ast.IndexExpr{X: m, Index: key}}},
		&ast.IfStmt{Cond: &ast.UnaryExpr{Op: token.NOT, X: ok}, Body: &ast.BlockStmt{List: []ast.Stmt{&ast.BranchStmt{Tok: token.CONTINUE}}}},
		&ast.AssignStmt{Lhs: []ast.Expr{ast.NewIdent("_")}, Tok: token.ASSIGN, Rhs: []ast.Expr{key}},
	}
	body = append(body, s.Body.List...)
	var loop ast.Stmt = &ast.RangeStmt{Key: ast.NewIdent("_"), Value: ki, Tok: token.DEFINE, X: vrtCall("MapKeys", m), Body: &ast.BlockStmt{List: body}}
	if labeled != nil {
		loop = &ast.LabeledStmt{Label: labeled.Label, Stmt: loop}
	}
	ordered := &ast.BlockStmt{List: append(append([]ast.Stmt{define(m, s.X)}, decls...), loop)}
	r.notes = append(r.notes, "ordered map range over "+types.ExprString(orig.X)+" in "+r.pkg)
	return &ast.IfStmt{Cond: vrtCall("OrderedMaps"), Body: ordered, Else: &ast.BlockStmt{List: []ast.Stmt{origStmt}}}
}

func (r *rewriter) rangeChan(s *ast.RangeStmt, label *ast.Ident) ast.Stmt {
	r.used = true
	r.scanExpr(s.X, true)
	if s.Value != nil {
		r.errorf(s, "range over channel with two variables")
	}
	c, ok := r.tmp("C"), r.tmp("Ok")
	var recv ast.Stmt
	var pre []ast.Stmt
	key := s.Key
	if key == nil {
		key = ast.NewIdent("_")
	}
	rx := &ast.UnaryExpr{Op: token.ARROW, X: c}
	if s.Tok == token.ASSIGN {
		pre = append(pre, &ast.DeclStmt{Decl: &ast.GenDecl{Tok: token.VAR, Specs: []ast.Spec{&ast.ValueSpec{Names: []*ast.Ident{ok}, Type: ast.NewIdent("bool")}}}})
		recv = &ast.AssignStmt{Lhs: []ast.Expr{key, ok}, Tok: token.ASSIGN, Rhs: []ast.Expr{rx}}
	} else {
		recv = &ast.AssignStmt{Lhs: []ast.Expr{key, ok}, Tok: token.DEFINE, Rhs: []ast.Expr{rx}}
		// one variable per loop (go 1.14 semantics), when the element type can be written down
		if id, isId := key.(*ast.Ident); isId && id.Name != "_" {
			if ct, isChan := r.typeOf(s.X).(*types.Chan); isChan {
				if et := r.typeExpr(ct.Elem()); et != nil {
					pre = append(pre,
						&ast.DeclStmt{Decl: &ast.GenDecl{Tok: token.VAR, Specs: []ast.Spec{&ast.ValueSpec{Names: []*ast.Ident{id}, Type: et}}}},
						&ast.DeclStmt{Decl: &ast.GenDecl{Tok: token.VAR, Specs: []ast.Spec{&ast.ValueSpec{Names: []*ast.Ident{ok}, Type: ast.NewIdent("bool")}}}},
						&ast.AssignStmt{Lhs: []ast.Expr{ast.NewIdent("_")}, Tok: token.ASSIGN, Rhs: []ast.Expr{id}})
					recv = &ast.AssignStmt{Lhs: []ast.Expr{key, ok}, Tok: token.ASSIGN, Rhs: []ast.Expr{rx}}
				}
			}
		}
	}
	body := []ast.Stmt{exprStmt(vrtCall("Recv", c)), recv, exprStmt(vrtCall("Recvd")),
		&ast.IfStmt{Cond: &ast.UnaryExpr{Op: token.NOT, X: ok}, Body: &ast.BlockStmt{List: []ast.Stmt{&ast.BranchStmt{Tok: token.BREAK}}}}}
	body = append(body, r.block(s.Body.List)...)
	var loop ast.Stmt = &ast.ForStmt{Body: &ast.BlockStmt{List: body}}
	if label != nil {
		loop = &ast.LabeledStmt{Label: label, Stmt: loop}
	}
	list := []ast.Stmt{define(c, s.X)}
	list = append(list, pre...)
	list = append(list, loop)
	return &ast.BlockStmt{List: list}
}

func (r *rewriter) selectStmt(s *ast.SelectStmt) ast.Stmt {
	r.used = true
	var pre []ast.Stmt
	var cases []ast.Expr
	var clauses []ast.Stmt
	hasDefault := false
	idx := 0
	for _, c := range s.Body.List {
		cc := c.(*ast.CommClause)
		if cc.Comm == nil {
			hasDefault = true
			clauses = append(clauses, &ast.CaseClause{List: nil, Body: r.block(cc.Body)})
			continue
		}
		ch := r.tmp("C")
		var comm []ast.Stmt
		switch cm := cc.Comm.(type) {
		case *ast.SendStmt:
			r.scanExpr(cm.Chan, true)
			r.scanExpr(cm.Value, true)
			pre = append(pre, define(ch, cm.Chan))
			val := cm.Value
			if !r.isConst(cm.Value) {
				v := r.tmp("V")
				pre = append(pre, define(v, cm.Value))
				val = v
			}
			cases = append(cases, vrtCall("CaseSend", ch))
			comm = []ast.Stmt{&ast.SendStmt{Chan: ch, Value: val}, exprStmt(vrtCall("Sent"))}
		case *ast.ExprStmt:
			ue, ok := cm.X.(*ast.UnaryExpr)
			if !ok || ue.Op != token.ARROW {
				r.errorf(cm, "select clause")
				continue
			}
			r.scanExpr(ue.X, true)
			pre = append(pre, define(ch, ue.X))
			ue.X = ch
			cases = append(cases, vrtCall("CaseRecv", ch))
			comm = []ast.Stmt{cm, exprStmt(vrtCall("Recvd"))}
		case *ast.AssignStmt:
			ue, ok := cm.Rhs[0].(*ast.UnaryExpr)
			if !ok || ue.Op != token.ARROW || len(cm.Rhs) != 1 {
				r.errorf(cm, "select clause")
				continue
			}
			r.scanExpr(ue.X, true)
			pre = append(pre, define(ch, ue.X))
			ue.X = ch
			cases = append(cases, vrtCall("CaseRecv", ch))
			comm = []ast.Stmt{cm, exprStmt(vrtCall("Recvd"))}
		default:
			r.errorf(cc, "select clause %T", cc.Comm)
			continue
		}
		body := append(comm, r.block(cc.Body)...)
		clauses = append(clauses, &ast.CaseClause{List: []ast.Expr{&ast.BasicLit{Kind: token.INT, Value: strconv.Itoa(idx)}}, Body: body})
		idx++
	}
	def := "false"
	if hasDefault {
		def = "true"
	}
	args := append([]ast.Expr{ast.NewIdent(def)}, cases...)
	sw := &ast.SwitchStmt{Tag: vrtCall("Select", args...), Body: &ast.BlockStmt{List: clauses}}
	return &ast.BlockStmt{List: append(pre, sw)}
}
